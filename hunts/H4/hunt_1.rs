// C10 (add_stream_with on the futures single-consumer receiver of the MPMC queue)
//
// MPMCFutUniReceiver::add_stream_with creates a second stream on a queue whose
// read path *moves* the payload out of the ring (MPMC: get_val = ptr::read,
// try_recv_view = op(&val) followed by drop_in_place). Two streams over such a
// ring means that every value is dropped once per stream: creating the stream
// destroys the values of the existing stream (and of the new one).
extern crate multiqueue2 as multiqueue;

use std::sync::atomic::{AtomicUsize, Ordering};

static DROPS: AtomicUsize = AtomicUsize::new(0);
static DROPS_B: AtomicUsize = AtomicUsize::new(0);

// no heap memory of its own: dropping it twice is observable without crashing
struct Payload {
    id: usize,
    drops: &'static AtomicUsize,
}

impl Drop for Payload {
    fn drop(&mut self) {
        self.drops.fetch_add(1, Ordering::SeqCst);
        // a destroyed payload is recognisable
        self.id = DEAD;
    }
}

const DEAD: usize = 0xDEAD_DEAD;

#[test]
fn add_stream_with_on_mpmc_drops_every_value_twice() {
    let drops = &DROPS;
    let (tx, rx) = multiqueue::mpmc_fut_queue::<Payload>(8);
    let mut parent = match rx.into_single(|p: &Payload| p.id) {
        Ok(r) => r,
        Err(_) => panic!("sole handle must convert"),
    };
    // the new stream starts at the parent's position
    let mut child = parent.add_stream_with(|p: &Payload| p.id);

    const N: usize = 4;
    for id in 0..N {
        assert!(tx
            .try_send(Payload { id, drops })
            .is_ok());
    }
    // existing stream: sees all values in order
    for id in 0..N {
        assert_eq!(parent.try_recv().unwrap(), id);
    }
    assert_eq!(
        drops.load(Ordering::SeqCst),
        N,
        "the parent consumed N values, each dropped once"
    );
    // the new stream is supposed to deliver every value from the parent's
    // position on; what it views are values the parent already destroyed
    let got_child: Vec<usize> = (0..N).map(|_| child.try_recv().unwrap()).collect();
    let d = drops.load(Ordering::SeqCst);
    eprintln!("child stream delivered {:x?}, drops so far {}", got_child, d);
    assert_eq!(
        got_child,
        (0..N).collect::<Vec<_>>(),
        "the new stream must deliver the values sent after its creation"
    );
    drop(tx);
    drop(parent);
    drop(child);
    assert_eq!(
        d, N,
        "every payload must be dropped exactly once, saw {} drops for {} values",
        d, N
    );
}

// Same defect made visible as a use-after-free on heap payloads: the child
// stream is handed a reference to a String whose buffer the parent stream freed.
// Aborts the whole test process (glibc: "free(): double free detected"), so it
// is opt-in: cargo test --offline --test hunt_1 -- --ignored
#[test]
#[ignore]
fn add_stream_with_on_mpmc_views_freed_payload() {
    let (tx, rx) = multiqueue::mpmc_fut_queue::<String>(8);
    let mut parent = match rx.into_single(|s: &String| s.clone()) {
        Ok(r) => r,
        Err(_) => panic!("sole handle must convert"),
    };
    let mut child = parent.add_stream_with(|s: &String| s.clone());
    let mut expect = Vec::new();
    for i in 0..6 {
        let s = format!("value-number-{:04}-with-a-heap-buffer-{:032}", i, i);
        expect.push(s.clone());
        assert!(tx.try_send(s).is_ok());
    }
    let mut got_parent = Vec::new();
    for _ in 0..6 {
        got_parent.push(parent.try_recv().unwrap());
        // churn the allocator so that freed buffers get reused
        let junk: Vec<String> = (0..16).map(|k| format!("{:064}", k + 7777)).collect();
        drop(junk);
    }
    assert_eq!(got_parent, expect);
    let keep: Vec<String> = (0..64).map(|k| format!("JUNKJUNK{:056}", k)).collect();
    let mut got_child = Vec::new();
    for _ in 0..6 {
        got_child.push(child.try_recv().unwrap());
    }
    drop(keep);
    assert_eq!(got_child, expect, "child stream delivered different values");
}

// The other direction: the *existing* stream loses its values. The stream
// created with add_stream_with consumes first; what the parent stream then
// delivers are payloads the new stream already destroyed.
#[test]
fn add_stream_with_on_mpmc_destroys_values_of_existing_stream() {
    let (tx, rx) = multiqueue::mpmc_fut_queue::<Payload>(8);
    let mut parent = match rx.into_single(|p: &Payload| p.id) {
        Ok(r) => r,
        Err(_) => panic!("sole handle must convert"),
    };
    const N: usize = 4;
    for id in 0..N {
        assert!(tx
            .try_send(Payload {
                id,
                drops: &DROPS_B
            })
            .is_ok());
    }
    {
        let mut child = parent.add_stream_with(|p: &Payload| p.id);
        let got_child: Vec<usize> = (0..N).map(|_| child.try_recv().unwrap()).collect();
        assert_eq!(got_child, (0..N).collect::<Vec<_>>());
        assert!(child.unsubscribe());
    }
    let got_parent: Vec<usize> = (0..N).map(|_| parent.try_recv().unwrap()).collect();
    eprintln!("existing stream delivered {:x?}", got_parent);
    assert_eq!(
        got_parent,
        (0..N).collect::<Vec<_>>(),
        "creating (and removing) a stream must not cost the existing stream its values"
    );
}
