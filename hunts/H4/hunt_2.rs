// ADJACENT FINDING (liveness; see notes.md for how it relates to C11/C12)
//
// A futures broadcast queue, one stream shared by several consumers (1 -> 4 by
// clone) that all use the direct, blocking recv(); one producer task sending
// through the Sink (send().wait()), which parks when the queue is full.
//
// A consumer whose attempt pins a slot (refcount) and then finds that a sibling
// already took the value releases the pin and goes on waiting *inside* recv()
// without telling the parked senders. If the producer was refused because of
// that pin (try_send: check_ref -> Full) and parked, nobody ever wakes it: the
// queue is empty, every consumer waits for a value, the producer waits for a
// notification. The test detects the deadlock with a progress watchdog.
extern crate futures;
extern crate multiqueue2 as multiqueue;

use futures::{Future, Sink};
use std::sync::atomic::{AtomicBool, AtomicUsize, Ordering};
use std::sync::Arc;
use std::thread;
use std::time::{Duration, Instant};

const STALL: Duration = Duration::from_secs(8);
const BUDGET: Duration = Duration::from_secs(90);

/// returns Some(progress) if no progress was made for STALL
fn run(direct_blocking_recv: bool) -> Option<usize> {
    let prog = Arc::new(AtomicUsize::new(0));
    let finished = Arc::new(AtomicBool::new(false));
    // background load so that threads get preempted inside the queue code
    let stop = Arc::new(AtomicBool::new(false));
    for _ in 0..32 {
        let s = stop.clone();
        thread::spawn(move || {
            let mut x = 1u64;
            while !s.load(Ordering::Relaxed) {
                x = x.wrapping_mul(6364136223846793005).wrapping_add(1442695040888963407);
                if x >> 54 == 0 {
                    thread::yield_now();
                }
            }
        });
    }
    {
        let prog = prog.clone();
        let finished = finished.clone();
        thread::spawn(move || {
            let t0 = Instant::now();
            while t0.elapsed() < BUDGET {
                let (tx, rx) = multiqueue::broadcast_fut_queue_with::<u64>(1, 0, 0);
                let mut cons = Vec::new();
                for _ in 0..4 {
                    let c = rx.clone();
                    let prog = prog.clone();
                    cons.push(thread::spawn(move || {
                        let mut n = 0usize;
                        if direct_blocking_recv {
                            while let Ok(_v) = c.recv() {
                                n += 1;
                                prog.fetch_add(1, Ordering::Relaxed);
                            }
                        } else {
                            loop {
                                match c.try_recv() {
                                    Ok(_) => {
                                        n += 1;
                                        prog.fetch_add(1, Ordering::Relaxed);
                                    }
                                    Err(std::sync::mpsc::TryRecvError::Empty) => thread::yield_now(),
                                    Err(std::sync::mpsc::TryRecvError::Disconnected) => break,
                                }
                            }
                        }
                        n
                    }));
                }
                drop(rx);
                let mut txp = tx;
                for v in 0..20000u64 {
                    txp = txp.send(v).wait().unwrap();
                    prog.fetch_add(1, Ordering::Relaxed);
                }
                drop(txp);
                let tot: usize = cons.into_iter().map(|t| t.join().unwrap()).sum();
                assert_eq!(tot, 20000);
            }
            finished.store(true, Ordering::SeqCst);
        });
    }
    let mut last = prog.load(Ordering::SeqCst);
    let mut since = Instant::now();
    let res = loop {
        if finished.load(Ordering::SeqCst) {
            break None;
        }
        let p = prog.load(Ordering::SeqCst);
        if p != last {
            last = p;
            since = Instant::now();
        } else if since.elapsed() > STALL {
            break Some(p);
        }
        thread::sleep(Duration::from_millis(20));
    };
    stop.store(true, Ordering::SeqCst);
    res
}

#[test]
fn sink_producer_is_never_woken_after_pin_by_blocking_recv() {
    if let Some(p) = run(true) {
        panic!(
            "deadlock: no send and no receive completed for {:?} (after {} operations): \
             the producer task is parked on a queue that is empty",
            STALL, p
        );
    }
}

// control: the same workload through try_recv() (which notifies the senders
// after every call) runs to the end
#[test]
#[ignore]
fn control_try_recv_never_stalls() {
    assert_eq!(run(false), None);
}
