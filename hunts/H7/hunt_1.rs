// C14 violation: a sink task that was refused (NotReady) because a stream that is
// just being added still sits at its stale snapshot position is never notified
// when add_stream moves that stream forward to the parent's current position.
//
// Handles: A and B share one stream of a broadcast futures queue (capacity 1),
// S is the only sender. One value is in the queue (full).
//
//   A: add_stream()   - takes the snapshot of the parent position (0) ...
//   B: try_recv()     - consumes the value: parent position 1, wakes senders (none parked)
//   A:                - ... publishes the new stream at position 0
//   S: start_send(1)  - refused: the new stream is at 0, so the queue looks full;
//                       the task is parked in prod_wait, NotReady
//   A:                - moves the new stream to 1 and returns. Nobody notifies prod_wait.
//
// Afterwards nothing runs any more, the queue is empty (both streams at 1 = head),
// the sink task is parked and never notified.
//
// The first two steps are forced with a global allocator that holds A inside its
// first allocation of add_stream (the snapshot is taken before it) until B is done.
// The only non-deterministic part is S hitting the few instructions between the
// publication and the correction; the allocator releases S at A's last allocation
// before the publication and the test sweeps a small delay, repeating the scenario
// on fresh queues until the lost wake-up shows (typically well under a second).
extern crate futures;
extern crate multiqueue2;

use futures::executor::{spawn, Notify};
use futures::AsyncSink;
use multiqueue2::{broadcast_fut_queue_with, BroadcastFutReceiver, BroadcastFutSender};
use std::alloc::{GlobalAlloc, Layout, System};
use std::cell::Cell;
use std::hint::black_box;
use std::sync::atomic::{AtomicBool, AtomicUsize, Ordering::SeqCst};
use std::sync::{Arc, Mutex};
use std::thread;
use std::time::{Duration, Instant};

thread_local! {
    // 0: not steering; 1: inside add_stream, no allocation seen yet; 2: first seen
    static ARMED: Cell<u8> = const { Cell::new(0) };
}
static SNAPSHOT_TAKEN: AtomicBool = AtomicBool::new(false);
static B_DONE: AtomicBool = AtomicBool::new(false);
static GO: AtomicBool = AtomicBool::new(false);
static A_DELAY: AtomicUsize = AtomicUsize::new(0);

fn burn(n: usize) {
    for i in 0..n {
        black_box(i);
    }
}

struct Steer;
unsafe impl GlobalAlloc for Steer {
    unsafe fn alloc(&self, l: Layout) -> *mut u8 {
        ARMED.with(|c| {
            if c.get() == 1 {
                c.set(2);
                // ReadCursor::add_stream has loaded the parent position already
                SNAPSHOT_TAKEN.store(true, SeqCst);
                while !B_DONE.load(SeqCst) {
                    std::hint::spin_loop();
                }
            }
        });
        System.alloc(l)
    }
    unsafe fn dealloc(&self, p: *mut u8, l: Layout) {
        System.dealloc(p, l)
    }
    unsafe fn realloc(&self, p: *mut u8, l: Layout, n: usize) -> *mut u8 {
        let r = System.realloc(p, l, n);
        ARMED.with(|c| {
            if c.get() == 2 {
                c.set(0);
                // the push onto the copied reader list: last allocation before the CAS
                GO.store(true, SeqCst);
                burn(A_DELAY.load(SeqCst));
            }
        });
        r
    }
}
#[global_allocator]
static ALLOC: Steer = Steer;

struct Flag(AtomicBool);
impl Notify for Flag {
    fn notify(&self, _id: usize) {
        self.0.store(true, SeqCst);
    }
}

struct Shared {
    gen: AtomicUsize,
    done: AtomicUsize,
    stop: AtomicBool,
    a: Mutex<Option<BroadcastFutReceiver<u64>>>,
    b: Mutex<Option<BroadcastFutReceiver<u64>>>,
    s: Mutex<Option<BroadcastFutSender<u64>>>,
    q: Mutex<Option<BroadcastFutReceiver<u64>>>,
    s_delay: AtomicUsize,
    s_not_ready: AtomicBool,
    b_got: AtomicBool,
    flag: Mutex<Option<Arc<Flag>>>,
}

fn worker(sh: Arc<Shared>, role: usize) {
    let mut seen = 0;
    loop {
        loop {
            if sh.stop.load(SeqCst) {
                return;
            }
            let g = sh.gen.load(SeqCst);
            if g != seen {
                seen = g;
                break;
            }
            std::hint::spin_loop();
        }
        match role {
            0 => {
                let a = sh.a.lock().unwrap().take().unwrap();
                ARMED.with(|c| c.set(1));
                let q = a.add_stream();
                ARMED.with(|c| c.set(0));
                *sh.q.lock().unwrap() = Some(q);
                *sh.a.lock().unwrap() = Some(a);
            }
            1 => {
                let b = sh.b.lock().unwrap().take().unwrap();
                while !SNAPSHOT_TAKEN.load(SeqCst) {
                    std::hint::spin_loop();
                }
                let r = b.try_recv();
                sh.b_got.store(r == Ok(0), SeqCst);
                B_DONE.store(true, SeqCst);
                *sh.b.lock().unwrap() = Some(b);
            }
            _ => {
                let s = sh.s.lock().unwrap().take().unwrap();
                let flag = sh.flag.lock().unwrap().clone().unwrap();
                let mut task = spawn(s);
                let d = sh.s_delay.load(SeqCst);
                while !GO.load(SeqCst) {
                    std::hint::spin_loop();
                }
                burn(d);
                let r = task.start_send_notify(1u64, &flag, 0).unwrap();
                sh.s_not_ready
                    .store(matches!(r, AsyncSink::NotReady(_)), SeqCst);
                *sh.s.lock().unwrap() = Some(task.into_inner());
            }
        }
        sh.done.fetch_add(1, SeqCst);
    }
}

#[test]
fn sender_parked_behind_stale_new_stream_is_never_woken() {
    let sh = Arc::new(Shared {
        gen: AtomicUsize::new(0),
        done: AtomicUsize::new(0),
        stop: AtomicBool::new(false),
        a: Mutex::new(None),
        b: Mutex::new(None),
        s: Mutex::new(None),
        q: Mutex::new(None),
        s_delay: AtomicUsize::new(0),
        s_not_ready: AtomicBool::new(false),
        b_got: AtomicBool::new(false),
        flag: Mutex::new(None),
    });
    let hs: Vec<_> = (0..3)
        .map(|r| {
            let sh = sh.clone();
            thread::spawn(move || worker(sh, r))
        })
        .collect();

    let start = Instant::now();
    let budget = Duration::from_secs(60);
    let mut trials = 0u64;
    let mut refused = 0u64;
    let mut rng = 0x9E3779B97F4A7C15u64;
    let mut found: Option<String> = None;
    while start.elapsed() < budget && found.is_none() {
        trials += 1;
        rng ^= rng << 13;
        rng ^= rng >> 7;
        rng ^= rng << 17;
        let (tx, rx) = broadcast_fut_queue_with::<u64>(1, 0, 0);
        let b = rx.clone();
        tx.try_send(0).unwrap(); // capacity 1: full
        let flag = Arc::new(Flag(AtomicBool::new(false)));
        *sh.a.lock().unwrap() = Some(rx);
        *sh.b.lock().unwrap() = Some(b);
        *sh.s.lock().unwrap() = Some(tx);
        *sh.flag.lock().unwrap() = Some(flag.clone());
        // sweep the relative delay between A (after its last allocation) and S
        let a_delay = (rng & 1023) as usize;
        let s_delay = ((rng >> 16) & 255) as usize;
        A_DELAY.store(a_delay, SeqCst);
        sh.s_delay.store(s_delay, SeqCst);
        SNAPSHOT_TAKEN.store(false, SeqCst);
        B_DONE.store(false, SeqCst);
        GO.store(false, SeqCst);
        sh.done.store(0, SeqCst);
        sh.gen.fetch_add(1, SeqCst);
        while sh.done.load(SeqCst) < 3 {
            std::hint::spin_loop();
        }
        // Quiescent: add_stream returned, B consumed the value, S did one start_send
        assert!(sh.b_got.load(SeqCst));
        let tx = sh.s.lock().unwrap().take().unwrap();
        if sh.s_not_ready.load(SeqCst) {
            refused += 1;
            // The task is parked. Give a notification ample time to arrive
            let t0 = Instant::now();
            while t0.elapsed() < Duration::from_millis(300) && !flag.0.load(SeqCst) {
                thread::yield_now();
            }
            let notified = flag.0.load(SeqCst);
            // ... and see whether the parked task could make progress
            let could_send = tx.try_send(2).is_ok();
            if !notified && could_send {
                found = Some(format!(
                    "trial {} (delays A {} S {}): start_send returned NotReady, the task was \
                     not notified within 300 ms after every other operation had returned, \
                     yet the queue is empty: try_send succeeds",
                    trials, a_delay, s_delay
                ));
            }
        }
        drop(tx);
        sh.a.lock().unwrap().take();
        sh.b.lock().unwrap().take();
        sh.q.lock().unwrap().take();
    }
    sh.stop.store(true, SeqCst);
    for h in hs {
        h.join().unwrap();
    }
    println!(
        "trials {} refused {} elapsed {:?}",
        trials,
        refused,
        start.elapsed()
    );
    if let Some(msg) = found {
        panic!("C14 violated - parked sink task lost its wake-up: {}", msg);
    }
}
