// Multi-thread stress (exploration tool): stream churn + mode switches
extern crate multiqueue2 as mq;

use std::sync::atomic::{AtomicBool, AtomicU64, AtomicUsize, Ordering};
use std::sync::mpsc::{TryRecvError, TrySendError};
use std::sync::{Arc, Mutex};
use std::thread;
use std::time::{Duration, Instant};

static TORN: AtomicUsize = AtomicUsize::new(0);

struct P {
    prod: u64,
    seq: u64,
    chk: u64,
    pad: [u64; 5],
    heap: Box<u64>,
}
impl P {
    fn new(prod: u64, seq: u64) -> P {
        P { prod, seq, chk: !seq, pad: [seq; 5], heap: Box::new(seq ^ 0x5555) }
    }
    fn ok(&self) -> bool {
        self.chk == !self.seq && self.pad.iter().all(|x| *x == self.seq) && *self.heap == self.seq ^ 0x5555
    }
}
impl Clone for P {
    fn clone(&self) -> P {
        let a = self.seq;
        if a % 7 == 0 {
            thread::yield_now();
        }
        let r = P { prod: self.prod, seq: self.seq, chk: self.chk, pad: self.pad, heap: Box::new(*self.heap) };
        if !r.ok() {
            TORN.fetch_add(1, Ordering::SeqCst);
        }
        r
    }
}

struct SeqCheck {
    last: [Option<u64>; 2],
}
impl SeqCheck {
    fn new() -> SeqCheck {
        SeqCheck { last: [None, None] }
    }
    fn feed(&mut self, p: &P, what: &str, errs: &Mutex<Vec<String>>) {
        if !p.ok() {
            errs.lock().unwrap().push(format!("{}: torn payload prod {} seq {}", what, p.prod, p.seq));
        }
        let l = &mut self.last[p.prod as usize];
        if let Some(prev) = *l {
            if p.seq != prev + 1 {
                errs.lock().unwrap().push(format!("{}: prod {} seq {} after {}", what, p.prod, p.seq, prev));
            }
        }
        *l = Some(p.seq);
    }
}

fn stress(cap: u64, millis: u64) -> Vec<String> {
    let errs = Arc::new(Mutex::new(Vec::new()));
    let stop = Arc::new(AtomicBool::new(false));
    let (tx, rx) = mq::broadcast_queue::<P>(cap);

    // stream 1: shared by two consumers, second one churns
    let s1 = rx.add_stream();
    // stream 3: churn thread's own
    let s3 = rx.add_stream();
    // main stream: single consumer converting into_single/into_multi
    let s0 = rx;

    let sent = [Arc::new(AtomicU64::new(0)), Arc::new(AtomicU64::new(0))];

    let mut hs = Vec::new();
    // producer 0, clones/drop producer handle for a helper thread
    {
        let stop = stop.clone();
        let sent0 = sent[0].clone();
        let sent1 = sent[1].clone();
        hs.push(thread::spawn(move || {
            let mut seq0 = 0u64;
            let mut seq1 = 0u64;
            let mut round = 0u64;
            while !stop.load(Ordering::Relaxed) {
                round += 1;
                // single-writer phase
                for _ in 0..(round % 13) {
                    match tx.try_send(P::new(0, seq0)) {
                        Ok(()) => seq0 += 1,
                        Err(TrySendError::Full(_)) => thread::yield_now(),
                        Err(TrySendError::Disconnected(_)) => return [None, None],
                    }
                }
                // two-writer phase
                let tx2 = tx.clone();
                let stop2 = stop.clone();
                let n = round % 17;
                let start1 = seq1;
                let h = thread::spawn(move || {
                    let mut s = start1;
                    let mut tries = 0;
                    while s < start1 + n && !stop2.load(Ordering::Relaxed) && tries < 100000 {
                        match tx2.try_send(P::new(1, s)) {
                            Ok(()) => s += 1,
                            Err(TrySendError::Full(_)) => {
                                tries += 1;
                                thread::yield_now()
                            }
                            Err(TrySendError::Disconnected(_)) => break,
                        }
                    }
                    s
                });
                for _ in 0..(round % 11) {
                    match tx.try_send(P::new(0, seq0)) {
                        Ok(()) => seq0 += 1,
                        Err(TrySendError::Full(_)) => thread::yield_now(),
                        Err(TrySendError::Disconnected(_)) => return [None, None],
                    }
                }
                seq1 = h.join().unwrap();
            }
            sent0.store(seq0, Ordering::SeqCst);
            sent1.store(seq1, Ordering::SeqCst);
            let r: [Option<u64>; 2] = [None, None];
            r
        }));
    }

    // stream 0 consumer: into_single / into_multi switches
    {
        let errs = errs.clone();
        hs.push(thread::spawn(move || {
            let mut chk = SeqCheck::new();
            let mut r = Some(s0);
            let mut k = 0u64;
            loop {
                k += 1;
                let plain = r.take().unwrap();
                if k % 3 == 0 {
                    let uni = plain.into_single().ok().expect("sole handle");
                    let mut done = false;
                    for _ in 0..5 {
                        match uni.try_recv_view(|p| {
                            (p.prod, p.seq, p.ok())
                        }) {
                            Ok((prod, seq, ok)) => {
                                let mut p = P::new(prod, seq);
                                if !ok {
                                    p.chk = 0;
                                }
                                chk.feed(&p, "s0 view", &errs);
                            }
                            Err((_, TryRecvError::Empty)) => thread::yield_now(),
                            Err((_, TryRecvError::Disconnected)) => {
                                done = true;
                                break;
                            }
                        }
                    }
                    if done {
                        return chk.last;
                    }
                    r = Some(uni.into_multi());
                } else {
                    let mut done = false;
                    for _ in 0..5 {
                        match plain.try_recv() {
                            Ok(p) => chk.feed(&p, "s0", &errs),
                            Err(TryRecvError::Empty) => thread::yield_now(),
                            Err(TryRecvError::Disconnected) => {
                                done = true;
                                break;
                            }
                        }
                    }
                    if done {
                        return chk.last;
                    }
                    r = Some(plain);
                }
            }
        }));
    }

    // stream 1: consumer A (persistent) + churning clone B in another thread
    let s1_got: Arc<Mutex<Vec<(u64, u64)>>> = Arc::new(Mutex::new(Vec::new()));
    {
        let errs = errs.clone();
        let got = s1_got.clone();
        hs.push(thread::spawn(move || {
            let mut mine = Vec::new();
            let mut k = 0u64;
            let mut helper: Option<thread::JoinHandle<Vec<(u64, u64)>>> = None;
            loop {
                k += 1;
                if k % 5 == 0 && helper.is_none() {
                    let b = s1.clone();
                    let n = k % 23;
                    helper = Some(thread::spawn(move || {
                        let mut v = Vec::new();
                        let mut tries = 0;
                        while (v.len() as u64) < n && tries < 2000 {
                            match b.try_recv() {
                                Ok(p) => {
                                    v.push((p.prod, p.seq, p.ok()));
                                }
                                Err(TryRecvError::Empty) => {
                                    tries += 1;
                                    thread::yield_now()
                                }
                                Err(TryRecvError::Disconnected) => break,
                            }
                        }
                        if k % 2 == 0 {
                            assert!(!b.unsubscribe());
                        }
                        v.into_iter().map(|(a, b, ok)| (a, if ok { b } else { u64::MAX })).collect()
                    }));
                }
                let mut done = false;
                for _ in 0..4 {
                    match s1.try_recv() {
                        Ok(p) => {
                            if !p.ok() {
                                errs.lock().unwrap().push(format!("s1: torn {} {}", p.prod, p.seq));
                            }
                            mine.push((p.prod, p.seq));
                        }
                        Err(TryRecvError::Empty) => thread::yield_now(),
                        Err(TryRecvError::Disconnected) => {
                            done = true;
                            break;
                        }
                    }
                }
                if k % 5 == 3 || done {
                    if let Some(h) = helper.take() {
                        mine.extend(h.join().unwrap());
                    }
                }
                if done {
                    // helper may have left values: drain again as sole consumer
                    loop {
                        match s1.try_recv() {
                            Ok(p) => mine.push((p.prod, p.seq)),
                            Err(TryRecvError::Empty) => thread::yield_now(),
                            Err(TryRecvError::Disconnected) => break,
                        }
                    }
                    got.lock().unwrap().extend(mine);
                    return [None, None];
                }
            }
        }));
    }

    // stream 3: churn thread: add_stream / consume a few / unsubscribe
    {
        let errs = errs.clone();
        hs.push(thread::spawn(move || {
            let mut chk = SeqCheck::new();
            let mut k = 0u64;
            let mut children: Vec<(mq::BroadcastReceiver<P>, SeqCheck, u64)> = Vec::new();
            loop {
                k += 1;
                // new stream from our handle: its first value must be our next value
                let child = s3.add_stream();
                let mut done = false;
                let mine = loop {
                    match s3.try_recv() {
                        Ok(p) => break Some(p),
                        Err(TryRecvError::Empty) => thread::yield_now(),
                        Err(TryRecvError::Disconnected) => {
                            done = true;
                            break None;
                        }
                    }
                };
                if let Some(p) = mine {
                    chk.feed(&p, "s3", &errs);
                    // the child must deliver the same value first
                    let c = loop {
                        match child.try_recv() {
                            Ok(c) => break c,
                            Err(TryRecvError::Empty) => thread::yield_now(),
                            Err(TryRecvError::Disconnected) => {
                                errs.lock().unwrap().push(format!("child disconnected before first value {} {}", p.prod, p.seq));
                                return chk.last;
                            }
                        }
                    };
                    if (c.prod, c.seq) != (p.prod, p.seq) || !c.ok() {
                        errs.lock().unwrap().push(format!(
                            "child first value ({},{}) parent next ({},{})",
                            c.prod, c.seq, p.prod, p.seq
                        ));
                    }
                    let mut cc = SeqCheck::new();
                    cc.feed(&c, "child", &errs);
                    children.push((child, cc, k % 9));
                } else {
                    drop(child);
                }
                // advance children, retire those that used up their budget
                let mut i = 0;
                while i < children.len() {
                    let (ref ch, ref mut cc, ref mut left) = children[i];
                    match ch.try_recv() {
                        Ok(p) => cc.feed(&p, "child", &errs),
                        Err(_) => {}
                    }
                    if *left == 0 {
                        let (ch, _, _) = children.swap_remove(i);
                        if k % 2 == 0 {
                            if !ch.unsubscribe() {
                                errs.lock().unwrap().push("unsubscribe of sole child handle said false".into());
                            }
                        } else {
                            drop(ch);
                        }
                    } else {
                        *left -= 1;
                        i += 1;
                    }
                }
                if done {
                    return chk.last;
                }
            }
        }));
    }

    thread::sleep(Duration::from_millis(millis));
    stop.store(true, Ordering::SeqCst);
    let deadline = Instant::now() + Duration::from_secs(20);
    let mut lasts = Vec::new();
    for h in hs {
        // crude hang detection
        while !h.is_finished() {
            if Instant::now() > deadline {
                errs.lock().unwrap().push("HANG: a thread did not finish".into());
                let e = errs.lock().unwrap().clone();
                return e;
            }
            thread::sleep(Duration::from_millis(5));
        }
        match h.join() {
            Ok(l) => lasts.push(l),
            Err(_) => errs.lock().unwrap().push("thread panicked".into()),
        }
    }
    let n0 = sent[0].load(Ordering::SeqCst);
    let n1 = sent[1].load(Ordering::SeqCst);
    // stream 0 and stream 3 must have seen everything up to the end
    for (i, l) in lasts.iter().enumerate() {
        if i == 1 || i == 3 {
            if n0 > 0 && l[0] != Some(n0 - 1) {
                errs.lock().unwrap().push(format!("thread {} last prod0 {:?} sent {}", i, l[0], n0));
            }
            if n1 > 0 && l[1] != Some(n1 - 1) {
                errs.lock().unwrap().push(format!("thread {} last prod1 {:?} sent {}", i, l[1], n1));
            }
        }
    }
    // stream 1: exactly once
    let mut got = s1_got.lock().unwrap().clone();
    got.sort();
    let mut expect: Vec<(u64, u64)> = (0..n0).map(|s| (0, s)).collect();
    expect.extend((0..n1).map(|s| (1, s)));
    if got != expect {
        let mut e = errs.lock().unwrap();
        e.push(format!("s1 multiset mismatch: got {} expected {}", got.len(), expect.len()));
        // first difference
        for i in 0..got.len().min(expect.len()) {
            if got[i] != expect[i] {
                e.push(format!("first diff at {}: got {:?} expected {:?}", i, got[i], expect[i]));
                break;
            }
        }
    }
    if TORN.load(Ordering::SeqCst) != 0 {
        errs.lock().unwrap().push(format!("torn clones: {}", TORN.load(Ordering::SeqCst)));
    }
    let e = errs.lock().unwrap().clone();
    e
}

#[test]
fn stress_all() {
    let mut all = Vec::new();
    for round in 0..3 {
        for cap in [1u64, 2, 3, 8] {
            let e = stress(cap, 1500);
            if !e.is_empty() {
                println!("cap {} round {}: {} errors", cap, round, e.len());
                for x in e.iter().take(10) {
                    println!("   {}", x);
                }
                all.extend(e);
            }
        }
    }
    assert!(all.is_empty());
}
