// Exploration: add_stream from a shared parent while a sibling consumes and the ring wraps
extern crate multiqueue2 as mq;

use std::sync::atomic::{AtomicBool, AtomicU64, Ordering};
use std::sync::mpsc::{TryRecvError, TrySendError};
use std::sync::{Arc, Mutex};
use std::thread;
use std::time::{Duration, Instant};

struct P {
    seq: u64,
    chk: u64,
    heap: Box<u64>,
}
impl P {
    fn new(seq: u64) -> P {
        P { seq, chk: !seq, heap: Box::new(seq ^ 0x77) }
    }
    fn ok(&self) -> bool {
        self.chk == !self.seq && *self.heap == self.seq ^ 0x77
    }
}
impl Clone for P {
    fn clone(&self) -> P {
        if self.seq % 5 == 0 {
            thread::yield_now();
        }
        P { seq: self.seq, chk: self.chk, heap: Box::new(*self.heap) }
    }
}

fn run(cap: u64, multi_writer: bool, millis: u64) -> Vec<String> {
    let errs: Arc<Mutex<Vec<String>>> = Arc::new(Mutex::new(Vec::new()));
    let stop = Arc::new(AtomicBool::new(false));
    let (tx, rx) = mq::broadcast_queue::<P>(cap);
    let a = rx;
    let b = a.clone();
    let consumed = Arc::new(AtomicU64::new(0)); // values taken from the shared stream
    let n = if cap == 0 { 1 } else { cap.next_power_of_two() };
    // positions of the slowest stream are not tracked exactly; capacity is checked through
    // the value stream: a child must never see a damaged or out-of-order value.
    let mut hs = Vec::new();
    {
        let stop = stop.clone();
        hs.push(thread::spawn(move || {
            let _keep = if multi_writer { Some(tx.clone()) } else { None };
            let mut s = 0u64;
            while !stop.load(Ordering::Relaxed) {
                match tx.try_send(P::new(s)) {
                    Ok(()) => s += 1,
                    Err(TrySendError::Full(_)) => thread::yield_now(),
                    Err(TrySendError::Disconnected(_)) => break,
                }
            }
        }));
    }
    {
        let errs = errs.clone();
        let consumed = consumed.clone();
        hs.push(thread::spawn(move || {
            let mut last: Option<u64> = None;
            loop {
                match a.try_recv() {
                    Ok(p) => {
                        if !p.ok() {
                            errs.lock().unwrap().push(format!("A torn {}", p.seq));
                        }
                        if let Some(l) = last {
                            if p.seq <= l {
                                errs.lock().unwrap().push(format!("A order {} after {}", p.seq, l));
                            }
                        }
                        last = Some(p.seq);
                        consumed.fetch_add(1, Ordering::SeqCst);
                    }
                    Err(TryRecvError::Empty) => thread::yield_now(),
                    Err(TryRecvError::Disconnected) => return,
                }
            }
        }));
    }
    {
        let errs = errs.clone();
        let consumed = consumed.clone();
        let stop = stop.clone();
        hs.push(thread::spawn(move || {
            let mut k = 0u64;
            while !stop.load(Ordering::Relaxed) {
                k += 1;
                if k % 3 == 0 {
                    if let Ok(p) = b.try_recv() {
                        if !p.ok() {
                            errs.lock().unwrap().push(format!("B torn {}", p.seq));
                        }
                        consumed.fetch_add(1, Ordering::SeqCst);
                    }
                }
                let lo = consumed.load(Ordering::SeqCst);
                let child = b.add_stream();
                let hi = consumed.load(Ordering::SeqCst) + 1;
                let want = 1 + (k % (2 * n + 3));
                let mut first: Option<u64> = None;
                let mut next = 0u64;
                let mut got = 0;
                let deadline = Instant::now() + Duration::from_secs(5);
                while got < want {
                    match child.try_recv() {
                        Ok(p) => {
                            if !p.ok() {
                                errs.lock().unwrap().push(format!("child torn {}", p.seq));
                            }
                            if first.is_none() {
                                first = Some(p.seq);
                                if p.seq < lo || p.seq > hi {
                                    errs.lock().unwrap().push(format!(
                                        "child starts at {} but parent was within [{},{}] during the call",
                                        p.seq, lo, hi
                                    ));
                                }
                            } else if p.seq != next {
                                errs.lock().unwrap().push(format!("child gap: {} expected {}", p.seq, next));
                            }
                            next = p.seq + 1;
                            got += 1;
                        }
                        Err(TryRecvError::Empty) => {
                            if stop.load(Ordering::Relaxed) {
                                break;
                            }
                            if Instant::now() > deadline {
                                errs.lock().unwrap().push(format!("child stuck after {:?} (next {})", first, next));
                                break;
                            }
                            thread::yield_now();
                        }
                        Err(TryRecvError::Disconnected) => break,
                    }
                }
                if k % 2 == 0 {
                    if !child.unsubscribe() {
                        errs.lock().unwrap().push("unsubscribe(child) false".into());
                    }
                }
            }
        }));
    }
    thread::sleep(Duration::from_millis(millis));
    stop.store(true, Ordering::SeqCst);
    let deadline = Instant::now() + Duration::from_secs(20);
    for h in hs {
        while !h.is_finished() {
            if Instant::now() > deadline {
                errs.lock().unwrap().push("HANG".into());
                return errs.lock().unwrap().clone();
            }
            thread::sleep(Duration::from_millis(5));
        }
        if h.join().is_err() {
            errs.lock().unwrap().push("panic in thread".into());
        }
    }
    let e = errs.lock().unwrap().clone();
    e
}

#[test]
fn shared_parent() {
    let mut all = Vec::new();
    for cap in [1u64, 2, 4] {
        for mw in [false, true] {
            let e = run(cap, mw, 2000);
            if !e.is_empty() {
                println!("cap {} multi_writer {}: {} errors", cap, mw, e.len());
                for x in e.iter().take(8) {
                    println!("   {}", x);
                }
                all.extend(e);
            }
        }
    }
    assert!(all.is_empty());
}
