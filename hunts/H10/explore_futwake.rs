// Exploration: a Sink task parked on a full queue is woken when the slow stream goes away
extern crate futures;
extern crate multiqueue2 as mq;

use futures::executor::{spawn, Notify};
use futures::{Async, AsyncSink, Stream};
use std::sync::atomic::{AtomicUsize, Ordering};
use std::sync::Arc;

struct Cnt(AtomicUsize);
impl Notify for Cnt {
    fn notify(&self, _id: usize) {
        self.0.fetch_add(1, Ordering::SeqCst);
    }
}

fn scenario(cap: u64, how: usize) -> Result<(), String> {
    let n = if cap == 0 { 1 } else { cap.next_power_of_two() };
    let (tx, fast) = mq::broadcast_fut_queue::<u64>(cap);
    let slow = fast.add_stream();
    let slow2 = if how == 4 { Some(slow.clone()) } else { None };
    let cnt = Arc::new(Cnt(AtomicUsize::new(0)));
    let mut stx = spawn(tx);
    let mut v = 0u64;
    for _ in 0..n {
        match stx.start_send_notify(v, &cnt, 0) {
            Ok(AsyncSink::Ready) => v += 1,
            other => return Err(format!("fill refused: {:?}", other.is_ok())),
        }
    }
    // fast consumes everything through poll
    let mut sfast = spawn(fast);
    for i in 0..n {
        match sfast.poll_stream_notify(&cnt, 1) {
            Ok(Async::Ready(Some(x))) if x == i => {}
            other => return Err(format!("fast poll {} -> {:?}", i, other)),
        }
    }
    match stx.start_send_notify(v, &cnt, 0) {
        Ok(AsyncSink::NotReady(_)) => {}
        other => return Err(format!("send on full queue: ready={:?}", other.is_ok())),
    }
    let before = cnt.0.load(Ordering::SeqCst);
    match how {
        0 => drop(slow),
        1 => {
            if !slow.unsubscribe() {
                return Err("unsubscribe false".into());
            }
        }
        2 => {
            let u = slow.into_single(|x: &u64| *x).ok().expect("single");
            drop(u);
        }
        3 => {
            let u = slow.into_single(|x: &u64| *x).ok().expect("single");
            if !u.unsubscribe() {
                return Err("uni unsubscribe false".into());
            }
        }
        4 => {
            // two handles: dropping the first must not release, the second must
            if slow.unsubscribe() {
                return Err("non-last unsubscribe true".into());
            }
            match stx.start_send_notify(v, &cnt, 0) {
                Ok(AsyncSink::NotReady(_)) => {}
                _ => return Err("send accepted while slow stream still has a handle".into()),
            }
            drop(slow2);
        }
        5 => {
            // convert back and forth, then drop
            let u = slow.into_single(|x: &u64| *x).ok().expect("single");
            let m = u.into_multi();
            match stx.start_send_notify(v, &cnt, 0) {
                Ok(AsyncSink::NotReady(_)) => {}
                _ => return Err("send accepted after into_multi of slow stream".into()),
            }
            drop(m);
        }
        6 => {
            // slow stream consumes one value through its direct recv
            let x = slow.recv().unwrap();
            if x != 0 {
                return Err(format!("slow got {}", x));
            }
        }
        7 => {
            let mut u = slow.into_single(|x: &u64| *x).ok().expect("single");
            let x = u.try_recv().unwrap();
            if x != 0 {
                return Err(format!("slow got {}", x));
            }
            std::mem::forget(u);
        }
        _ => unreachable!(),
    }
    let after = cnt.0.load(Ordering::SeqCst);
    if after == before {
        return Err(format!("parked sender was not notified (how={})", how));
    }
    match stx.start_send_notify(v, &cnt, 0) {
        Ok(AsyncSink::Ready) => {}
        _ => return Err(format!("retry after release refused (how={})", how)),
    }
    // fast still gets the value
    match sfast.poll_stream_notify(&cnt, 1) {
        Ok(Async::Ready(Some(x))) if x == v => Ok(()),
        other => Err(format!("fast after release: {:?}", other)),
    }
}

#[test]
fn futwake() {
    let mut bad = Vec::new();
    for cap in 0..10 {
        for how in 0..8 {
            if let Err(e) = scenario(cap, how) {
                bad.push(format!("cap {} how {}: {}", cap, how, e));
            }
        }
    }
    for b in &bad {
        println!("{}", b);
    }
    assert!(bad.is_empty());
}
