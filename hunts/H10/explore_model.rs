// Random single-threaded histories against a reference model (exploration tool)
extern crate multiqueue2 as mq;

use std::sync::atomic::{AtomicIsize, Ordering};
use std::sync::mpsc::{TryRecvError, TrySendError};
use std::sync::Arc;

struct P {
    v: u64,
    live: Arc<AtomicIsize>,
}
impl P {
    fn new(v: u64, live: &Arc<AtomicIsize>) -> P {
        live.fetch_add(1, Ordering::SeqCst);
        P { v, live: live.clone() }
    }
}
impl Clone for P {
    fn clone(&self) -> P {
        self.live.fetch_add(1, Ordering::SeqCst);
        P { v: self.v, live: self.live.clone() }
    }
}
impl Drop for P {
    fn drop(&mut self) {
        self.live.fetch_sub(1, Ordering::SeqCst);
    }
}

struct Rng(u64);
impl Rng {
    fn next(&mut self) -> u64 {
        let mut x = self.0;
        x ^= x << 13;
        x ^= x >> 7;
        x ^= x << 17;
        self.0 = x;
        x
    }
    fn below(&mut self, n: usize) -> usize {
        (self.next() % n as u64) as usize
    }
}

type F = fn(&P) -> u64;
fn getv(p: &P) -> u64 {
    p.v
}

enum H {
    Plain(mq::BroadcastReceiver<P>),
    Uni(mq::BroadcastUniReceiver<P>),
    Fut(mq::BroadcastFutReceiver<P>),
    FutUni(mq::BroadcastFutUniReceiver<u64, F, P>),
}

enum S {
    Plain(mq::BroadcastSender<P>),
    Fut(mq::BroadcastFutSender<P>),
}

impl S {
    fn try_send(&self, p: P) -> Result<(), TrySendError<P>> {
        match self {
            S::Plain(s) => s.try_send(p),
            S::Fut(s) => s.try_send(p),
        }
    }
    fn dup(&self) -> S {
        match self {
            S::Plain(s) => S::Plain(s.clone()),
            S::Fut(s) => S::Fut(s.clone()),
        }
    }
}

struct MStream {
    pos: u64,
    handles: usize,
}

fn npow(c: u64) -> u64 {
    if c == 0 {
        1
    } else {
        c.next_power_of_two()
    }
}

fn run(seed: u64, cap: u64, fut: bool, steps: usize) -> Result<(), String> {
    let live = Arc::new(AtomicIsize::new(0));
    let mut rng = Rng(seed.wrapping_mul(0x9E3779B97F4A7C15) | 1);
    let n = npow(cap);
    let mut senders: Vec<S> = Vec::new();
    // handle, stream id
    let mut handles: Vec<(H, usize)> = Vec::new();
    let mut streams: Vec<Option<MStream>> = Vec::new();
    if fut {
        let (s, r) = mq::broadcast_fut_queue::<P>(cap);
        senders.push(S::Fut(s));
        handles.push((H::Fut(r), 0));
    } else {
        let (s, r) = mq::broadcast_queue::<P>(cap);
        senders.push(S::Plain(s));
        handles.push((H::Plain(r), 0));
    }
    streams.push(Some(MStream { pos: 0, handles: 1 }));
    let mut accepted: u64 = 0;
    let mut log: Vec<String> = Vec::new();

    macro_rules! fail {
        ($($a:tt)*) => {{
            let msg = format!($($a)*);
            let tail: Vec<String> = log.iter().rev().take(40).rev().cloned().collect();
            return Err(format!("seed {} cap {} fut {}: {}\n  history tail: {}", seed, cap, fut, msg, tail.join("; ")));
        }};
    }

    for _step in 0..steps {
        let op = rng.below(100);
        let nstreams = streams.iter().filter(|s| s.is_some()).count();
        if op < 35 {
            // send
            if senders.is_empty() {
                continue;
            }
            let si = rng.below(senders.len());
            let minpos = streams.iter().filter_map(|s| s.as_ref().map(|s| s.pos)).min();
            let expect_ok = match minpos {
                Some(m) => accepted - m < n,
                None => false,
            };
            let r = senders[si].try_send(P::new(accepted, &live));
            log.push(format!("send[{}]({})={}", si, accepted, r.is_ok()));
            match r {
                Ok(()) => {
                    if !expect_ok {
                        fail!("send accepted but model says full/no streams (accepted={}, min={:?}, n={})", accepted, minpos, n);
                    }
                    accepted += 1;
                }
                Err(e) => {
                    if expect_ok {
                        let k = match e {
                            TrySendError::Full(_) => "Full",
                            TrySendError::Disconnected(_) => "Disconnected",
                        };
                        fail!("send refused ({}) but model says room (accepted={}, min={:?}, n={}, streams={})", k, accepted, minpos, n, nstreams);
                    }
                }
            }
        } else if op < 70 {
            // recv
            if handles.is_empty() {
                continue;
            }
            let hi = rng.below(handles.len());
            let sid = handles[hi].1;
            let spos = streams[sid].as_ref().unwrap().pos;
            let r: Result<u64, TryRecvError> = match &mut handles[hi].0 {
                H::Plain(r) => r.try_recv().map(|p| p.v),
                H::Uni(r) => {
                    if rng.below(2) == 0 {
                        r.try_recv().map(|p| p.v)
                    } else {
                        r.try_recv_view(|p| p.v).map_err(|e| e.1)
                    }
                }
                H::Fut(r) => r.try_recv().map(|p| p.v),
                H::FutUni(r) => r.try_recv(),
            };
            log.push(format!("recv[h{} s{}]={:?}", hi, sid, r));
            if spos < accepted {
                match r {
                    Ok(v) if v == spos => {
                        streams[sid].as_mut().unwrap().pos += 1;
                    }
                    other => fail!("recv on stream {} at {} expected {}, got {:?}", sid, spos, spos, other),
                }
            } else {
                match r {
                    Err(TryRecvError::Empty) if !senders.is_empty() => {}
                    Err(TryRecvError::Disconnected) if senders.is_empty() => {}
                    other => fail!("recv on drained stream {} (senders {}) got {:?}", sid, senders.len(), other),
                }
            }
        } else if op < 77 {
            // add_stream
            if handles.is_empty() || handles.len() > 6 {
                continue;
            }
            let hi = rng.below(handles.len());
            let sid = handles[hi].1;
            let newh = match &handles[hi].0 {
                H::Plain(r) => Some(H::Plain(r.add_stream())),
                H::Fut(r) => Some(H::Fut(r.add_stream())),
                H::FutUni(r) => Some(H::FutUni(r.add_stream_with(getv as F))),
                H::Uni(_) => None,
            };
            if let Some(nh) = newh {
                let pos = streams[sid].as_ref().unwrap().pos;
                streams.push(Some(MStream { pos, handles: 1 }));
                let nsid = streams.len() - 1;
                log.push(format!("add_stream[h{} s{}]->s{}@{}", hi, sid, nsid, pos));
                handles.push((nh, nsid));
            }
        } else if op < 83 {
            // clone handle
            if handles.is_empty() || handles.len() > 6 {
                continue;
            }
            let hi = rng.below(handles.len());
            let sid = handles[hi].1;
            let newh = match &handles[hi].0 {
                H::Plain(r) => Some(H::Plain(r.clone())),
                H::Fut(r) => Some(H::Fut(r.clone())),
                _ => None,
            };
            if let Some(nh) = newh {
                streams[sid].as_mut().unwrap().handles += 1;
                log.push(format!("clone[h{} s{}]", hi, sid));
                handles.push((nh, sid));
            }
        } else if op < 90 {
            // drop / unsubscribe a receiver handle
            if handles.len() <= 1 && rng.below(8) != 0 {
                continue;
            }
            if handles.is_empty() {
                continue;
            }
            let hi = rng.below(handles.len());
            let (h, sid) = handles.swap_remove(hi);
            let st = streams[sid].as_mut().unwrap();
            st.handles -= 1;
            let last = st.handles == 0;
            if last {
                streams[sid] = None;
            }
            if rng.below(2) == 0 {
                log.push(format!("drop[h{} s{}] last={}", hi, sid, last));
                drop(h);
            } else {
                let r = match h {
                    H::Plain(r) => Some(r.unsubscribe()),
                    H::Uni(r) => {
                        r.unsubscribe();
                        None
                    }
                    H::Fut(r) => Some(r.unsubscribe()),
                    H::FutUni(r) => Some(r.unsubscribe()),
                };
                log.push(format!("unsub[h{} s{}] last={} -> {:?}", hi, sid, last, r));
                if let Some(r) = r {
                    if r != last {
                        fail!("unsubscribe returned {} but last={}", r, last);
                    }
                }
            }
        } else if op < 95 {
            // into_single / into_multi / transform
            if handles.is_empty() {
                continue;
            }
            let hi = rng.below(handles.len());
            let (h, sid) = handles.swap_remove(hi);
            let single = streams[sid].as_ref().unwrap().handles == 1;
            let nh = match h {
                H::Plain(r) => match r.into_single() {
                    Ok(u) => {
                        if !single {
                            fail!("into_single ok on shared stream");
                        }
                        H::Uni(u)
                    }
                    Err(r) => {
                        if single {
                            fail!("into_single failed on sole handle");
                        }
                        H::Plain(r)
                    }
                },
                H::Uni(u) => H::Plain(u.into_multi()),
                H::Fut(r) => match r.into_single(getv as F) {
                    Ok(u) => {
                        if !single {
                            fail!("fut into_single ok on shared stream");
                        }
                        H::FutUni(u)
                    }
                    Err((_, r)) => {
                        if single {
                            fail!("fut into_single failed on sole handle");
                        }
                        H::Fut(r)
                    }
                },
                H::FutUni(u) => {
                    if rng.below(2) == 0 {
                        H::Fut(u.into_multi())
                    } else {
                        H::FutUni(u.transform_operation(getv as F))
                    }
                }
            };
            log.push(format!("convert[h{} s{}]", hi, sid));
            handles.push((nh, sid));
        } else if op < 98 {
            // clone sender
            if senders.is_empty() || senders.len() > 3 {
                continue;
            }
            let si = rng.below(senders.len());
            let ns = senders[si].dup();
            log.push(format!("sclone[{}]", si));
            senders.push(ns);
        } else {
            // drop sender (rarely the last one)
            if senders.is_empty() {
                continue;
            }
            if senders.len() == 1 && rng.below(10) != 0 {
                continue;
            }
            let si = rng.below(senders.len());
            log.push(format!("sdrop[{}]", si));
            drop(senders.swap_remove(si));
        }
    }
    drop(senders);
    drop(handles);
    let l = live.load(Ordering::SeqCst);
    if l != 0 {
        fail!("{} payloads alive after everything was dropped", l);
    }
    Ok(())
}

#[test]
fn model_plain() {
    let mut bad = Vec::new();
    for cap in 0..10u64 {
        for seed in 1..3000u64 {
            if let Err(e) = run(seed, cap, false, 2500) {
                bad.push(e);
                break;
            }
        }
    }
    for b in &bad {
        println!("{}\n", b);
    }
    assert!(bad.is_empty());
}

#[test]
fn model_fut() {
    let mut bad = Vec::new();
    for cap in 0..10u64 {
        for seed in 1..3000u64 {
            if let Err(e) = run(seed, cap, true, 2500) {
                bad.push(e);
                break;
            }
        }
    }
    for b in &bad {
        println!("{}\n", b);
    }
    assert!(bad.is_empty());
}
