// C19: "A handle can be moved to another thread only when that is sound for
// what it carries."
//
// Every handle carries the queue's wait strategy (Arc<dyn Wait>).  The public
// trait multiqueue2::wait::Wait has no Send/Sync supertrait, and
// broadcast_queue_with / mpmc_queue_with accept any `W: Wait + 'static`.
// The handle types are nevertheless declared Send by `unsafe impl` as soon as
// the payload is Send (+Sync), so a strategy that is neither Send nor Sync
// (it holds an Rc<Cell<..>>) travels to other threads inside the handles and
// is called there concurrently - from 100% safe code.

extern crate multiqueue2;

use multiqueue2::wait::Wait;
use std::cell::Cell;
use std::rc::Rc;
use std::sync::atomic::AtomicUsize;
use std::thread::{self, ThreadId};

/// Neither Send nor Sync: Rc + Cell.
struct LocalWait {
    notifies: Rc<Cell<u64>>,
    home: ThreadId,
    seen_elsewhere: Rc<Cell<bool>>,
}

impl Wait for LocalWait {
    fn wait(&self, _: usize, _: &AtomicUsize, _: &AtomicUsize) {
        thread::yield_now();
    }
    fn notify(&self) {
        if thread::current().id() != self.home {
            self.seen_elsewhere.set(true);
        }
        // a plain, non-atomic read-modify-write: fine for a !Sync type
        self.notifies.set(self.notifies.get() + 1);
    }
    fn needs_notify(&self) -> bool {
        true
    }
}

fn assert_send<T: Send>(_: &T) {}

/// Part 1, no race at all: the !Send + !Sync strategy is used on a thread
/// other than the one that owns the Rc, one thread at a time.
#[test]
fn non_send_wait_strategy_is_used_on_another_thread() {
    let notifies = Rc::new(Cell::new(0u64));
    let seen_elsewhere = Rc::new(Cell::new(false));
    let w = LocalWait {
        notifies: notifies.clone(),
        home: thread::current().id(),
        seen_elsewhere: seen_elsewhere.clone(),
    };
    let (tx, rx) = multiqueue2::mpmc_queue_with::<u64, LocalWait>(8, w);
    assert_send(&tx); // accepted by the compiler although tx carries an Rc
    assert_send(&rx);

    thread::spawn(move || {
        tx.try_send(1).unwrap();
    })
    .join()
    .unwrap();
    assert_eq!(rx.try_recv(), Ok(1));

    println!(
        "Rc<Cell> owned by the main thread was touched on another thread: {}",
        seen_elsewhere.get()
    );
    assert!(
        !seen_elsewhere.get(),
        "a value that is neither Send nor Sync was used on a foreign thread"
    );
}

/// Part 2, the visible damage: two sender threads run the strategy's
/// non-atomic counter concurrently and updates are lost.
#[test]
fn non_sync_wait_strategy_races() {
    const PER_THREAD: u64 = 2_000_000;
    let notifies = Rc::new(Cell::new(0u64));
    let w = LocalWait {
        notifies: notifies.clone(),
        home: thread::current().id(),
        seen_elsewhere: Rc::new(Cell::new(false)),
    };
    let (tx, rx) = multiqueue2::mpmc_queue_with::<u64, LocalWait>(1024, w);

    let mut senders = Vec::new();
    for _ in 0..2 {
        let tx = tx.clone();
        senders.push(thread::spawn(move || {
            for i in 0..PER_THREAD {
                while tx.try_send(i).is_err() {
                    thread::yield_now();
                }
            }
            // keep the handle: its destructor would call notify() once more
            tx
        }));
    }
    let mut received = 0u64;
    while received < 2 * PER_THREAD {
        if rx.try_recv().is_ok() {
            received += 1;
        }
    }
    let kept: Vec<_> = senders.into_iter().map(|h| h.join().unwrap()).collect();

    // one notify() per successful try_send, nothing else has called it yet
    let counted = notifies.get();
    println!(
        "successful sends {}, notify() calls counted by the strategy {}",
        2 * PER_THREAD,
        counted
    );
    drop(kept);
    drop(tx);
    assert_eq!(counted, 2 * PER_THREAD, "updates of a Cell were lost: data race in safe code");
}
