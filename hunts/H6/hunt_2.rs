// C09, same defect as hunt_1 but with a heap payload (Box<u64>) and a poisoning
// global allocator, to show that this is a use-after-free and a double free and
// not an artefact of a destructor that scribbles over its own value.
//
// The allocator fills freed blocks with 0xDE and never hands a block back to
// the system (so addresses are never reused and a second free of the same
// address is unambiguous and harmless).

extern crate multiqueue2;

use std::alloc::{GlobalAlloc, Layout, System};
use std::sync::atomic::{AtomicBool, AtomicUsize, Ordering::SeqCst};

const SLOTS: usize = 4096;
static TRACK: AtomicBool = AtomicBool::new(false);
static FREED: [AtomicUsize; SLOTS] = {
    #[allow(clippy::declare_interior_mutable_const)]
    const Z: AtomicUsize = AtomicUsize::new(0);
    [Z; SLOTS]
};
static NFREED: AtomicUsize = AtomicUsize::new(0);
static DOUBLE_FREES: AtomicUsize = AtomicUsize::new(0);
// the two tests share the allocator's bookkeeping: run them one at a time
static SERIAL: std::sync::Mutex<()> = std::sync::Mutex::new(());

struct Poison;

unsafe impl GlobalAlloc for Poison {
    unsafe fn alloc(&self, l: Layout) -> *mut u8 {
        System.alloc(l)
    }
    unsafe fn dealloc(&self, p: *mut u8, l: Layout) {
        if TRACK.load(SeqCst) {
            let n = NFREED.load(SeqCst).min(SLOTS);
            let mut seen = false;
            for slot in FREED.iter().take(n) {
                if slot.load(SeqCst) == p as usize {
                    seen = true;
                }
            }
            if seen {
                DOUBLE_FREES.fetch_add(1, SeqCst);
                return;
            }
            let i = NFREED.fetch_add(1, SeqCst);
            if i < SLOTS {
                FREED[i].store(p as usize, SeqCst);
            }
        }
        std::ptr::write_bytes(p, 0xDE, l.size());
        // leaked on purpose: the address is never reused
    }
}

#[global_allocator]
static A: Poison = Poison;

#[test]
fn mpmc_fut_uni_second_stream_use_after_free() {
    let _g = SERIAL.lock().unwrap_or_else(|e| e.into_inner());
    let (tx, rx) = multiqueue2::mpmc_fut_queue::<Box<u64>>(4);
    let mut a = match rx.into_single(|p: &Box<u64>| **p) {
        Ok(a) => a,
        Err(_) => panic!("only one handle on the stream"),
    };
    let mut b = a.add_stream_with(|p: &Box<u64>| **p);

    assert!(tx.try_send(Box::new(7)).is_ok());

    let before = DOUBLE_FREES.load(SeqCst);
    TRACK.store(true, SeqCst);
    let got_a = a.try_recv();
    let got_b = b.try_recv();
    TRACK.store(false, SeqCst);
    let doubles = DOUBLE_FREES.load(SeqCst) - before;

    println!("stream A got {:x?}", got_a);
    println!("stream B got {:x?}", got_b);
    println!("blocks freed twice: {}", doubles);

    assert_eq!(got_a, Ok(7), "stream A");
    assert_eq!(got_b, Ok(7), "stream B must see the same log entry as stream A");
    assert_eq!(doubles, 0, "no block is freed twice");
}

// The copy-out path: into_multi() turns both single-consumer receivers into
// ordinary MPMCFutReceivers that still sit on two different streams. Each
// try_recv() moves the same Box out of the slot (ptr::read), so two owners of
// one heap block exist in safe code.
#[test]
fn mpmc_fut_two_streams_copy_out_aliases_the_box() {
    let _g = SERIAL.lock().unwrap_or_else(|e| e.into_inner());
    let (tx, rx) = multiqueue2::mpmc_fut_queue::<Box<u64>>(4);
    let a = match rx.into_single(|p: &Box<u64>| **p) {
        Ok(a) => a,
        Err(_) => panic!("only one handle on the stream"),
    };
    let b = a.add_stream_with(|p: &Box<u64>| **p);
    let a = a.into_multi();
    let b = b.into_multi();

    assert!(tx.try_send(Box::new(7)).is_ok());

    let got_a = a.try_recv().expect("stream A has one entry");
    let got_b = b.try_recv().expect("stream B has one entry");
    let same_block = &*got_a as *const u64 == &*got_b as *const u64;
    println!("A: {:p} -> {:x}, B: {:p} -> {:x}", &*got_a, *got_a, &*got_b, *got_b);

    TRACK.store(true, SeqCst);
    let before = DOUBLE_FREES.load(SeqCst);
    drop(got_a);
    let b_after = *got_b;
    drop(got_b);
    TRACK.store(false, SeqCst);
    let doubles = DOUBLE_FREES.load(SeqCst) - before;
    println!("value held by B after A's value was dropped: {:x}", b_after);
    println!("blocks freed twice: {}", doubles);

    assert!(!same_block, "two received values must not alias");
    assert_eq!(b_after, 7);
    assert_eq!(doubles, 0);
}
