// C09: single-threaded behaviour equals the reference model (one append-only
// log, one cursor per stream) on every queue flavour.
//
// MPMCFutUniReceiver::add_stream_with() is public API and adds a second stream
// to an MPMC-flavoured queue.  The MPMC flavour moves values out of the slot
// (ptr::read) / drops them in place after a view (ptr::drop_in_place), so the
// second stream observes a value that has already been dropped, and the value
// is dropped once per stream.
//
// The payload below is a plain struct whose destructor leaves a tombstone in
// place and counts destructor runs; no allocator tricks are needed.

extern crate multiqueue2;

use std::sync::atomic::{AtomicUsize, Ordering::SeqCst};

static CREATED: AtomicUsize = AtomicUsize::new(0);
static DROPPED: AtomicUsize = AtomicUsize::new(0);

const TOMBSTONE: u64 = 0xDEAD_DEAD_DEAD_DEAD;

struct Payload {
    v: u64,
}

impl Payload {
    fn new(v: u64) -> Payload {
        CREATED.fetch_add(1, SeqCst);
        Payload { v }
    }
}

impl Drop for Payload {
    fn drop(&mut self) {
        DROPPED.fetch_add(1, SeqCst);
        // volatile so that the store is not optimised away as dead
        unsafe { std::ptr::write_volatile(&mut self.v, TOMBSTONE) };
    }
}

#[test]
fn mpmc_fut_uni_second_stream_sees_dropped_value() {
    let (tx, rx) = multiqueue2::mpmc_fut_queue::<Payload>(4);
    // stream A, single consumer, viewing in place
    let mut a = match rx.into_single(|p: &Payload| p.v) {
        Ok(a) => a,
        Err(_) => panic!("only one handle on the stream"),
    };
    // stream B, subscribed at the same position through the public API
    let mut b = a.add_stream_with(|p: &Payload| p.v);

    assert!(tx.try_send(Payload::new(7)).is_ok());

    // The model: both streams have their cursor at 0, the log is [7].
    let got_a = a.try_recv();
    let got_b = b.try_recv();
    println!("stream A got {:x?}", got_a);
    println!("stream B got {:x?}", got_b);

    drop(a);
    drop(b);
    drop(tx);
    let created = CREATED.load(SeqCst);
    let dropped = DROPPED.load(SeqCst);
    println!("payloads created {}, destructor runs {}", created, dropped);

    assert_eq!(got_a, Ok(7), "stream A");
    assert_eq!(got_b, Ok(7), "stream B must see the same log entry as stream A");
    assert_eq!(created, dropped, "every payload is dropped exactly once");
}
