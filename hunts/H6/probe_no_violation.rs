extern crate futures;
extern crate multiqueue2;
use std::sync::atomic::{AtomicIsize, Ordering::SeqCst};
use std::sync::mpsc::{TryRecvError, TrySendError};

static LIVE: AtomicIsize = AtomicIsize::new(0);
struct P(u64);
impl P {
    fn new(v: u64) -> P {
        LIVE.fetch_add(1, SeqCst);
        P(v)
    }
}
impl Clone for P {
    fn clone(&self) -> P {
        assert_ne!(self.0, 0xDEAD);
        P::new(self.0)
    }
}
impl Drop for P {
    fn drop(&mut self) {
        assert_ne!(self.0, 0xDEAD, "double drop");
        self.0 = 0xDEAD;
        LIVE.fetch_sub(1, SeqCst);
    }
}
static SERIAL: std::sync::Mutex<()> = std::sync::Mutex::new(());

#[test]
fn mpmc_plain_accounting() {
    let _g = SERIAL.lock().unwrap_or_else(|e| e.into_inner());
    for cap in 0..10u64 {
        for consumed in 0..12u64 {
            {
                let (tx, rx) = multiqueue2::mpmc_queue::<P>(cap);
                let tx2 = tx.clone();
                let mut next = 0;
                let mut exp = 0;
                // several laps
                for lap in 0..3 {
                    loop {
                        let t = if next % 2 == 0 { &tx } else { &tx2 };
                        match t.try_send(P::new(next + 1)) {
                            Ok(()) => next += 1,
                            Err(TrySendError::Full(_)) => break,
                            Err(_) => panic!(),
                        }
                    }
                    let n = if lap == 2 { consumed } else { 100 };
                    let rx2 = rx.clone();
                    for k in 0..n {
                        let r = if k % 2 == 0 { &rx } else { &rx2 };
                        match r.try_recv() {
                            Ok(p) => {
                                exp += 1;
                                assert_eq!(p.0, exp);
                            }
                            Err(TryRecvError::Empty) => {
                                assert_eq!(exp, next);
                                break;
                            }
                            Err(_) => panic!(),
                        }
                    }
                }
                let u = rx.into_single().ok().unwrap();
                if consumed % 2 == 0 {
                    if let Ok(v) = u.try_recv_view(|p| p.0) {
                        exp += 1;
                        assert_eq!(v, exp);
                    }
                }
                if consumed % 3 == 0 {
                    drop(u);
                    assert!(matches!(tx.try_send(P::new(99)), Err(TrySendError::Disconnected(_))));
                    drop(tx);
                    drop(tx2);
                } else {
                    drop(tx);
                    drop(tx2);
                    for v in u.try_iter_with(|p| p.0).take(1) {
                        exp += 1;
                        assert_eq!(v, exp);
                    }
                    drop(u);
                }
            }
            assert_eq!(LIVE.load(SeqCst), 0, "cap {} consumed {}", cap, consumed);
        }
    }
}

#[test]
fn bcast_fut_chain_accounting() {
    let _g = SERIAL.lock().unwrap_or_else(|e| e.into_inner());
    for cap in 0..10u64 {
        {
            let (tx, rx) = multiqueue2::broadcast_fut_queue::<u64>(cap);
            let n = cap.max(1).next_power_of_two();
            for i in 0..n {
                tx.try_send(i + 1).unwrap();
            }
            assert!(tx.try_send(0).is_err());
            let rx2 = rx.clone();
            let (_, rx) = rx.into_single(|v: &u64| *v).err().unwrap();
            drop(rx2);
            let mut u = rx.into_single(|v: &u64| *v).ok().unwrap();
            assert_eq!(u.try_recv(), Ok(1));
            let mut s2 = u.add_stream_with(|v: &u64| *v * 10);
            let mut u = u.transform_operation(|v: &u64| *v + 100);
            if n > 1 {
                assert_eq!(u.try_recv(), Ok(102));
                assert_eq!(s2.try_recv(), Ok(20));
                assert!(tx.try_send(n + 1).is_ok());
                assert!(tx.try_send(n + 2).is_ok());
                assert!(tx.try_send(n + 3).is_err());
            } else {
                assert_eq!(u.try_recv(), Err(TryRecvError::Empty));
                assert!(tx.try_send(n + 1).is_ok());
                assert_eq!(s2.try_recv(), Ok(20));
            }
            let m = u.into_multi();
            let m2 = m.add_stream();
            assert!(s2.unsubscribe());
            let c = m.clone();
            assert!(!m.unsubscribe());
            let mut got = vec![];
            while let Ok(v) = c.try_recv() {
                got.push(v);
            }
            let mut got2 = vec![];
            while let Ok(v) = m2.try_recv() {
                got2.push(v);
            }
            assert_eq!(got, got2);
            let start = if n > 1 { 3 } else { 2 };
            let end = if n > 1 { n + 2 } else { n + 1 };
            assert_eq!(got, (start..=end).collect::<Vec<_>>());
            drop(tx);
            assert_eq!(c.try_recv(), Err(TryRecvError::Disconnected));
            assert_eq!(m2.recv().is_err(), true);
        }
    }
}
