// Review of c37a714 ("a handle used only for add_stream or clone acknowledges
// reclamation epochs"), together with 218e4a2 / 98126f0.
//
// The repair makes add_stream()/clone() acknowledge the epoch, but the defect
// its message describes -- "no reclamation cycle could complete while it lived,
// and every add/remove cycle left its retired stream list, position and token
// behind ... without bound" -- is still there for every handle that is alive
// but is not *entering* one of the acknowledging methods:
//
//   * a handle that is simply idle (e.g. a sender kept around to keep the queue
//     connected, or a second handle of a stream parked in some struct), and
//   * a receiver that is blocked inside recv(): recv() looks at the signal once
//     on entry and then loops/waits without ever looking again.
//
// While such a handle exists, subscription churn made by *other* handles
// (add_stream + drop, or clone + drop) retires memory that is never released.
//
// The test counts live heap bytes with a counting global allocator.

extern crate multiqueue2 as multiqueue;

use multiqueue::broadcast_queue;
use std::alloc::{GlobalAlloc, Layout, System};
use std::sync::atomic::{AtomicIsize, Ordering};
use std::thread;
use std::time::Duration;

struct Counting;
static LIVE: AtomicIsize = AtomicIsize::new(0);

unsafe impl GlobalAlloc for Counting {
    unsafe fn alloc(&self, l: Layout) -> *mut u8 {
        LIVE.fetch_add(l.size() as isize, Ordering::Relaxed);
        System.alloc(l)
    }
    unsafe fn dealloc(&self, p: *mut u8, l: Layout) {
        LIVE.fetch_sub(l.size() as isize, Ordering::Relaxed);
        System.dealloc(p, l)
    }
    unsafe fn realloc(&self, p: *mut u8, l: Layout, n: usize) -> *mut u8 {
        LIVE.fetch_add(n as isize - l.size() as isize, Ordering::Relaxed);
        System.realloc(p, l, n)
    }
}

#[global_allocator]
static A: Counting = Counting;

const CYCLES: usize = 20_000;
// one reclamation batch is ~20 retirements; be generous
const BOUND: isize = 64 * 1024;

fn churn(rx: &multiqueue::BroadcastReceiver<u32>) -> isize {
    // warm up so that lazily allocated things do not count
    for _ in 0..100 {
        drop(rx.add_stream());
    }
    let before = LIVE.load(Ordering::SeqCst);
    for _ in 0..CYCLES {
        drop(rx.add_stream());
    }
    LIVE.load(Ordering::SeqCst) - before
}

// Control: without any passive handle the churn is reclaimed (this passes).
#[test]
fn a_control_no_passive_handle() {
    let (tx, rx) = broadcast_queue::<u32>(4);
    drop(tx);
    let grown = churn(&rx);
    assert!(grown < BOUND, "control grew by {} bytes", grown);
}

// An idle sender (never sends, never clones) stalls reclamation for everybody.
#[test]
fn b_idle_sender_stalls_reclamation() {
    let (tx, rx) = broadcast_queue::<u32>(4);
    let grown = churn(&rx);
    drop(tx);
    assert!(
        grown < BOUND,
        "{} add_stream+drop cycles next to an idle sender left {} bytes behind ({} per cycle)",
        CYCLES,
        grown,
        grown / CYCLES as isize
    );
}

// A receiver blocked in recv() (second handle of the stream) does the same.
#[test]
fn c_receiver_blocked_in_recv_stalls_reclamation() {
    let (tx, rx) = broadcast_queue::<u32>(4);
    let blocked = rx.clone();
    let h = thread::spawn(move || blocked.recv());
    thread::sleep(Duration::from_millis(200)); // let it reach the wait
    // keep the sender out of the picture: it acknowledges through clone()
    let grown = {
        for _ in 0..100 {
            drop(rx.add_stream());
            drop(tx.clone());
        }
        let before = LIVE.load(Ordering::SeqCst);
        for _ in 0..CYCLES {
            drop(rx.add_stream());
            drop(tx.clone());
        }
        LIVE.load(Ordering::SeqCst) - before
    };
    tx.try_send(1).unwrap();
    assert_eq!(h.join().unwrap().unwrap(), 1);
    assert!(
        grown < BOUND,
        "{} add_stream+drop cycles next to a receiver blocked in recv() left {} bytes behind ({} per cycle)",
        CYCLES,
        grown,
        grown / CYCLES as isize
    );
}
