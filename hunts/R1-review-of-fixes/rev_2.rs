// Review of 69864a0 ("the direct try_recv()/recv() of the shared futures
// receivers notify parked senders like poll() does").
//
// FutInnerRecv::try_recv() now ends with an unconditional
// `self.prod_wait.notify_all()`, i.e. it takes the one parking_lot mutex that
// all handles of the queue share (and drains it) on EVERY call: also when the
// attempt returned Empty, also on a stream that has a single consumer (where no
// slot is ever pinned, so there is nothing to announce), also when nobody is
// parked. try_recv() is the polling hot path and is #[inline(always)].
//
// Effect: consumers on *independent* streams, which shared no written cache
// line before, now serialise on that mutex. On the parent commit (69864a0^) the
// futures receivers poll an empty queue as fast as the plain ones (~930 vs ~930
// Mops/s with 4 threads here); on the current tree they are ~100x slower (9 vs
// ~1000 Mops/s). Single threaded send+recv went from 25 ns to 49 ns.
//
// The test only asserts a very loose bound (futures >= plain / 10).

extern crate multiqueue2 as multiqueue;
use multiqueue::*;
use std::sync::atomic::{AtomicBool, Ordering};
use std::sync::Arc;
use std::thread;
use std::time::Duration;

const THREADS: usize = 4;
const MILLIS: u64 = 500;

fn plain() -> u64 {
    let stop = Arc::new(AtomicBool::new(false));
    let (tx, rx) = broadcast_queue::<usize>(64);
    let mut hs = vec![];
    for _ in 0..THREADS {
        let r = rx.add_stream();
        let stop = stop.clone();
        hs.push(thread::spawn(move || {
            let mut k = 0u64;
            while !stop.load(Ordering::Relaxed) {
                let _ = r.try_recv();
                k += 1;
            }
            k
        }));
    }
    drop(rx);
    thread::sleep(Duration::from_millis(MILLIS));
    stop.store(true, Ordering::SeqCst);
    let tot = hs.into_iter().map(|h| h.join().unwrap()).sum();
    drop(tx);
    tot
}

fn fut() -> u64 {
    let stop = Arc::new(AtomicBool::new(false));
    let (tx, rx) = broadcast_fut_queue::<usize>(64);
    let mut hs = vec![];
    for _ in 0..THREADS {
        let r = rx.add_stream();
        let stop = stop.clone();
        hs.push(thread::spawn(move || {
            let mut k = 0u64;
            while !stop.load(Ordering::Relaxed) {
                let _ = r.try_recv();
                k += 1;
            }
            k
        }));
    }
    drop(rx);
    thread::sleep(Duration::from_millis(MILLIS));
    stop.store(true, Ordering::SeqCst);
    let tot = hs.into_iter().map(|h| h.join().unwrap()).sum();
    drop(tx);
    tot
}

#[test]
fn try_recv_on_independent_streams_does_not_serialise() {
    let p = plain();
    let f = fut();
    eprintln!(
        "empty try_recv, {} threads on {} streams: plain {} Mops/s, futures {} Mops/s",
        THREADS,
        THREADS,
        p / (MILLIS * 1000),
        f / (MILLIS * 1000)
    );
    assert!(
        f * 10 >= p,
        "futures try_recv is {}x slower than the plain one ({} vs {} calls in {} ms)",
        p / f.max(1),
        f,
        p,
        MILLIS
    );
}
