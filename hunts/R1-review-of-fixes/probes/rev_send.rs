extern crate multiqueue2 as multiqueue;
use multiqueue::*;
use std::rc::Rc;
use std::cell::Cell;

trait AmbiguousIfSend<A> { fn some_item() {} }
impl<T: ?Sized> AmbiguousIfSend<()> for T {}
impl<T: ?Sized + Send> AmbiguousIfSend<u8> for T {}
macro_rules! not_send { ($t:ty) => { <$t as AmbiguousIfSend<_>>::some_item() } }
trait AmbiguousIfSync<A> { fn some_item2() {} }
impl<T: ?Sized> AmbiguousIfSync<()> for T {}
impl<T: ?Sized + Sync> AmbiguousIfSync<u8> for T {}
macro_rules! not_sync { ($t:ty) => { <$t as AmbiguousIfSync<_>>::some_item2() } }
fn is_send<T: Send>() {}

type RcClos = Box<dyn FnMut(&u32) -> u32>;
type SendClos = Box<dyn FnMut(&u32) -> u32 + Send>;
type RcClosRc = Box<dyn FnMut(&Rc<u32>) -> u32 + Send>;

#[test]
fn send_bounds() {
    is_send::<MPMCFutSender<u32>>();
    is_send::<MPMCFutReceiver<u32>>();
    is_send::<MPMCFutUniReceiver<u32, SendClos, u32>>();
    is_send::<BroadcastFutSender<u32>>();
    is_send::<BroadcastFutReceiver<u32>>();
    is_send::<BroadcastFutUniReceiver<u32, SendClos, u32>>();
    is_send::<BroadcastFutUniReceiver<Rc<u32>, Box<dyn FnMut(&u32) -> Rc<u32> + Send>, u32>>();
    not_send!(MPMCFutSender<Rc<u32>>);
    not_send!(MPMCFutReceiver<Rc<u32>>);
    not_send!(MPMCFutUniReceiver<u32, RcClos, u32>);
    not_send!(MPMCFutUniReceiver<u32, RcClosRc, Rc<u32>>);
    not_send!(BroadcastFutSender<Rc<u32>>);
    not_send!(BroadcastFutSender<Cell<u32>>);
    not_send!(BroadcastFutReceiver<Cell<u32>>);
    not_send!(BroadcastFutUniReceiver<u32, RcClos, u32>);
    not_sync!(MPMCFutSender<u32>);
    not_sync!(MPMCFutReceiver<u32>);
    not_sync!(BroadcastFutSender<u32>);
    not_sync!(BroadcastFutReceiver<u32>);
    not_sync!(BroadcastSender<u32>);
    not_sync!(BroadcastReceiver<u32>);
    not_sync!(MPMCSender<u32>);
    not_sync!(MPMCReceiver<u32>);
    not_sync!(MPMCUniReceiver<u32>);
    not_sync!(BroadcastUniReceiver<u32>);
    not_sync!(MPMCFutUniReceiver<u32, SendClos, u32>);
}
