extern crate multiqueue2 as multiqueue;

use multiqueue::{broadcast_queue, mpmc_queue};
use std::sync::atomic::{AtomicBool, AtomicUsize, Ordering};
use std::sync::mpsc::{TryRecvError, TrySendError};
use std::sync::Arc;
use std::thread;
use std::time::{Duration, Instant};

// cf1207f: add_stream on a shared parent while a sibling consumes and a writer wraps.
#[test]
fn add_stream_under_sibling_churn() {
    for cap in [1u64, 2, 4] {
        let (tx, rx) = broadcast_queue::<usize>(cap);
        let stop = Arc::new(AtomicBool::new(false));
        let accepted = Arc::new(AtomicUsize::new(0));
        let w = {
            let stop = stop.clone();
            let accepted = accepted.clone();
            thread::spawn(move || {
                let mut i = 0usize;
                while !stop.load(Ordering::Relaxed) {
                    match tx.try_send(i) {
                        Ok(()) => {
                            i += 1;
                            accepted.store(i, Ordering::SeqCst);
                        }
                        Err(TrySendError::Full(_)) => {}
                        Err(TrySendError::Disconnected(_)) => break,
                    }
                }
            })
        };
        let sib = rx.clone();
        let consumed = Arc::new(AtomicUsize::new(0));
        let b = {
            let stop = stop.clone();
            let consumed = consumed.clone();
            thread::spawn(move || {
                let mut last = None;
                while !stop.load(Ordering::Relaxed) {
                    if let Ok(v) = sib.try_recv() {
                        if let Some(l) = last {
                            assert!(v > l, "sibling went backwards {} after {}", v, l);
                        }
                        last = Some(v);
                        consumed.fetch_add(1, Ordering::Relaxed);
                    }
                }
            })
        };
        let start = Instant::now();
        let mut rounds = 0usize;
        while start.elapsed() < Duration::from_millis(1500) {
            let n = rx.add_stream();
            let mut prev: Option<usize> = None;
            let t0 = Instant::now();
            let mut got = 0;
            while got < 3 {
                match n.try_recv() {
                    Ok(v) => {
                        if let Some(p) = prev {
                            assert_eq!(v, p + 1, "gap on new stream (cap {})", cap);
                        }
                        prev = Some(v);
                        got += 1;
                    }
                    Err(TryRecvError::Empty) => {
                        assert!(
                            t0.elapsed() < Duration::from_secs(5),
                            "new stream starved (cap {}) got {} accepted {}",
                            cap,
                            got,
                            accepted.load(Ordering::SeqCst)
                        );
                    }
                    Err(TryRecvError::Disconnected) => panic!("disc"),
                }
            }
            drop(n);
            rounds += 1;
        }
        stop.store(true, Ordering::SeqCst);
        w.join().unwrap();
        b.join().unwrap();
        eprintln!("cap {} rounds {}", cap, rounds);
    }
}

struct Counted(Arc<AtomicUsize>, Arc<AtomicUsize>);
impl Counted {
    fn new(c: &Arc<AtomicUsize>, d: &Arc<AtomicUsize>) -> Counted {
        c.fetch_add(1, Ordering::SeqCst);
        Counted(c.clone(), d.clone())
    }
}
impl Clone for Counted {
    fn clone(&self) -> Counted {
        Counted::new(&self.0, &self.1)
    }
}
impl Drop for Counted {
    fn drop(&mut self) {
        self.1.fetch_add(1, Ordering::SeqCst);
    }
}

// f703c18 / 3650515: payload accounting on mpmc when receivers leave while senders run
#[test]
fn mpmc_last_receiver_leaves_accounting() {
    for round in 0..3000 {
        let created = Arc::new(AtomicUsize::new(0));
        let dropped = Arc::new(AtomicUsize::new(0));
        {
            let (tx, rx) = mpmc_queue::<Counted>(4);
            let tx2 = tx.clone();
            let mk = |tx: multiqueue::MPMCSender<Counted>| {
                let c = created.clone();
                let d = dropped.clone();
                thread::spawn(move || {
                    let mut n = 0;
                    loop {
                        match tx.try_send(Counted::new(&c, &d)) {
                            Ok(()) => {}
                            Err(TrySendError::Full(_)) => {
                                n += 1;
                                if n > 2_000_000 {
                                    break;
                                }
                            }
                            Err(TrySendError::Disconnected(_)) => break,
                        }
                    }
                })
            };
            let h1 = mk(tx);
            let h2 = mk(tx2);
            let rx2 = rx.clone();
            let r = thread::spawn(move || {
                for _ in 0..(round % 7) {
                    let _ = rx2.try_recv();
                }
            });
            for _ in 0..(round % 5) {
                let _ = rx.try_recv();
            }
            drop(rx);
            r.join().unwrap();
            h1.join().unwrap();
            h2.join().unwrap();
        }
        assert_eq!(
            created.load(Ordering::SeqCst),
            dropped.load(Ordering::SeqCst),
            "round {}",
            round
        );
    }
}

// 218e4a2 / 98126f0 / c37a714: reclamation churn (run under a sanitizer)
#[test]
fn reclamation_churn() {
    let (tx, rx) = broadcast_queue::<usize>(8);
    let stop = Arc::new(AtomicBool::new(false));
    let mut hs = Vec::new();
    for _ in 0..2 {
        let tx = tx.clone();
        let stop = stop.clone();
        hs.push(thread::spawn(move || {
            let mut i = 0;
            while !stop.load(Ordering::Relaxed) {
                if tx.try_send(i).is_ok() {
                    i += 1;
                }
                if i % 64 == 0 {
                    let t2 = tx.clone();
                    let _ = t2.try_send(i);
                }
            }
        }));
    }
    drop(tx);
    for _ in 0..3 {
        let rx = rx.add_stream();
        let stop = stop.clone();
        hs.push(thread::spawn(move || {
            let mut k = 0usize;
            while !stop.load(Ordering::Relaxed) {
                let _ = rx.try_recv();
                k += 1;
                if k % 16 == 0 {
                    let c = rx.clone();
                    let _ = c.try_recv();
                    let s = c.add_stream();
                    let _ = s.try_recv();
                    drop(c);
                    let _ = s.try_recv();
                }
            }
        }));
    }
    let start = Instant::now();
    while start.elapsed() < Duration::from_millis(2000) {
        let _ = rx.try_recv();
        let s = rx.add_stream();
        let _ = s.try_recv();
    }
    stop.store(true, Ordering::SeqCst);
    for h in hs {
        h.join().unwrap();
    }
}
