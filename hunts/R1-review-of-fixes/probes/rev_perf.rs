extern crate multiqueue2 as multiqueue;
use multiqueue::*;
use std::time::Instant;
use std::thread;
use std::sync::Arc;
use std::sync::atomic::{AtomicBool, Ordering};

#[test]
fn perf() {
    let n = 5_000_000usize;
    {
        let (tx, rx) = broadcast_queue::<usize>(64);
        let t = Instant::now();
        for i in 0..n { tx.try_send(i).unwrap(); rx.try_recv().unwrap(); }
        eprintln!("plain send+recv: {:?}/op", t.elapsed() / n as u32);
    }
    {
        let (tx, rx) = broadcast_fut_queue::<usize>(64);
        let t = Instant::now();
        for i in 0..n { tx.try_send(i).unwrap(); rx.try_recv().unwrap(); }
        eprintln!("fut send+recv: {:?}/op", t.elapsed() / n as u32);
    }
    // 4 consumers on 4 streams polling try_recv on an empty queue
    for fut in [false, true] {
        let stop = Arc::new(AtomicBool::new(false));
        let mut hs = vec![];
        if fut {
            let (tx, rx) = broadcast_fut_queue::<usize>(64);
            for _ in 0..4 { let r = rx.add_stream(); let stop = stop.clone(); hs.push(thread::spawn(move || { let mut k = 0u64; while !stop.load(Ordering::Relaxed) { let _ = r.try_recv(); k += 1; } k })); }
            drop(rx);
            thread::sleep(std::time::Duration::from_millis(500));
            stop.store(true, Ordering::SeqCst);
            let tot: u64 = hs.into_iter().map(|h| h.join().unwrap()).sum();
            eprintln!("fut empty try_recv x4 threads: {} Mops/s", tot / 500_000);
            drop(tx);
        } else {
            let (tx, rx) = broadcast_queue::<usize>(64);
            for _ in 0..4 { let r = rx.add_stream(); let stop = stop.clone(); hs.push(thread::spawn(move || { let mut k = 0u64; while !stop.load(Ordering::Relaxed) { let _ = r.try_recv(); k += 1; } k })); }
            drop(rx);
            thread::sleep(std::time::Duration::from_millis(500));
            stop.store(true, Ordering::SeqCst);
            let tot: u64 = hs.into_iter().map(|h| h.join().unwrap()).sum();
            eprintln!("plain empty try_recv x4 threads: {} Mops/s", tot / 500_000);
            drop(tx);
        }
    }
}
