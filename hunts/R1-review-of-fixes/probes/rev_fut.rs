extern crate futures;
extern crate multiqueue2 as multiqueue;

use futures::{Future, Sink, Stream};
use multiqueue::mpmc_fut_queue;
use std::sync::atomic::{AtomicUsize, Ordering};
use std::sync::mpsc::channel;
use std::sync::Arc;
use std::thread;
use std::time::Duration;

fn run_with_timeout<F: FnOnce() + Send + 'static>(name: &str, secs: u64, f: F) {
    let (tx, rx) = channel();
    thread::spawn(move || {
        f();
        let _ = tx.send(());
    });
    if rx.recv_timeout(Duration::from_secs(secs)).is_err() {
        panic!("{}: hang", name);
    }
}

#[test]
fn bcast_fut_shared_stream_mixed() {
    for round in 0..200 {
        run_with_timeout("bcast mixed", 20, move || {
            let cap = 1 + (round % 2) as u64;
            let (tx, rx) = multiqueue::broadcast_fut_queue_with::<usize>(cap, 0, 0);
            let n = 2000usize;
            let got = Arc::new(AtomicUsize::new(0));
            let mut hs = Vec::new();
            for s in 0..2 {
                let mut tx = tx.clone();
                hs.push(thread::spawn(move || {
                    for i in 0..n {
                        tx = tx.send(s * n + i).wait().unwrap();
                    }
                }));
            }
            drop(tx);
            let rx2 = rx.clone();
            let rx3 = rx.clone();
            let other = rx.add_stream();
            {
                let got = got.clone();
                hs.push(thread::spawn(move || {
                    for _ in rx.wait() {
                        got.fetch_add(1, Ordering::Relaxed);
                    }
                }));
            }
            {
                let got = got.clone();
                hs.push(thread::spawn(move || {
                    while rx2.recv().is_ok() {
                        got.fetch_add(1, Ordering::Relaxed);
                    }
                }));
            }
            {
                let got = got.clone();
                hs.push(thread::spawn(move || loop {
                    match rx3.try_recv() {
                        Ok(_) => {
                            got.fetch_add(1, Ordering::Relaxed);
                        }
                        Err(std::sync::mpsc::TryRecvError::Empty) => thread::yield_now(),
                        Err(_) => break,
                    }
                }));
            }
            let mut c = 0;
            for _ in other.wait() {
                c += 1;
                if c % 100 == 0 {
                    // churn streams from the futures side
                }
            }
            assert_eq!(c, 2 * n);
            for h in hs {
                h.join().unwrap();
            }
            assert_eq!(got.load(Ordering::SeqCst), 2 * n);
        });
    }
}

#[test]
fn mpmc_fut_shared() {
    for _round in 0..200 {
        run_with_timeout("mpmc shared", 20, move || {
            let (tx, rx) = mpmc_fut_queue::<usize>(1);
            let n = 3000usize;
            let got = Arc::new(AtomicUsize::new(0));
            let mut hs = Vec::new();
            for s in 0..2 {
                let mut tx = tx.clone();
                hs.push(thread::spawn(move || {
                    for i in 0..n {
                        tx = tx.send(s * n + i).wait().unwrap();
                    }
                }));
            }
            drop(tx);
            let rx2 = rx.clone();
            {
                let got = got.clone();
                hs.push(thread::spawn(move || {
                    for _ in rx.wait() {
                        got.fetch_add(1, Ordering::Relaxed);
                    }
                }));
            }
            {
                let got = got.clone();
                hs.push(thread::spawn(move || {
                    while rx2.recv().is_ok() {
                        got.fetch_add(1, Ordering::Relaxed);
                    }
                }));
            }
            for h in hs {
                h.join().unwrap();
            }
            assert_eq!(got.load(Ordering::SeqCst), 2 * n);
        });
    }
}

// add_stream churn on a futures queue while Sink tasks send
#[test]
fn bcast_fut_add_stream_churn() {
    for _round in 0..100 {
        run_with_timeout("add_stream churn", 20, move || {
            let (tx, rx) = multiqueue::broadcast_fut_queue_with::<usize>(2, 0, 0);
            let n = 3000usize;
            let mut hs = Vec::new();
            for s in 0..2 {
                let mut tx = tx.clone();
                hs.push(thread::spawn(move || {
                    for i in 0..n {
                        tx = tx.send(s * n + i).wait().unwrap();
                    }
                }));
            }
            drop(tx);
            let sib = rx.clone();
            hs.push(thread::spawn(move || for _ in sib.wait() {}));
            loop {
                let s = rx.add_stream();
                drop(s);
                match rx.try_recv() {
                    Err(std::sync::mpsc::TryRecvError::Disconnected) => break,
                    _ => {}
                }
            }
            for h in hs {
                h.join().unwrap();
            }
        });
    }
}
