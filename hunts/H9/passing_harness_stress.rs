extern crate futures;
extern crate multiqueue2 as mq;

use std::alloc::{GlobalAlloc, Layout, System};
use std::sync::atomic::{AtomicBool, AtomicIsize, AtomicUsize, Ordering::SeqCst};
use std::sync::mpsc::{TryRecvError, TrySendError};
use std::sync::Arc;
use std::thread;
use std::time::{Duration, Instant};

struct Poison;
static LIVE: AtomicIsize = AtomicIsize::new(0);
static DOUBLE: AtomicUsize = AtomicUsize::new(0);
static QUARANTINE: AtomicBool = AtomicBool::new(false);
unsafe impl GlobalAlloc for Poison {
    unsafe fn alloc(&self, l: Layout) -> *mut u8 {
        LIVE.fetch_add(l.size() as isize, SeqCst);
        let p = System.alloc(l);
        if l.size() <= 256 {
            std::ptr::write_bytes(p, 0xAB, l.size());
        }
        p
    }
    unsafe fn dealloc(&self, p: *mut u8, l: Layout) {
        LIVE.fetch_sub(l.size() as isize, SeqCst);
        if l.size() <= 256 && l.size() >= 8 && QUARANTINE.load(SeqCst) {
            let s = std::slice::from_raw_parts(p, l.size());
            if s.iter().all(|b| *b == 0xDD) {
                DOUBLE.fetch_add(1, SeqCst);
            }
            std::ptr::write_bytes(p, 0xDD, l.size());
            // never reuse
        } else {
            System.dealloc(p, l)
        }
    }
}
#[global_allocator]
static A: Poison = Poison;

static MADE: AtomicUsize = AtomicUsize::new(0);
static DROPPED: AtomicUsize = AtomicUsize::new(0);
static BAD: AtomicUsize = AtomicUsize::new(0);
const MAGIC: u64 = 0x1234_5678_9abc_def0;
struct P(Box<[u64; 2]>);
impl P {
    fn new(v: u64) -> P {
        MADE.fetch_add(1, SeqCst);
        P(Box::new([MAGIC, v]))
    }
    fn ok(&self) {
        if self.0[0] != MAGIC {
            BAD.fetch_add(1, SeqCst);
        }
    }
}
impl Clone for P {
    fn clone(&self) -> P {
        self.ok();
        MADE.fetch_add(1, SeqCst);
        P(Box::new([MAGIC, self.0[1]]))
    }
}
impl Drop for P {
    fn drop(&mut self) {
        self.ok();
        self.0[0] = 0;
        DROPPED.fetch_add(1, SeqCst);
    }
}

fn getv(p: &P) -> u64 {
    p.ok();
    p.0[1]
}
type FP = fn(&P) -> u64;

fn secs() -> u64 {
    std::env::var("HUNT_SECS").ok().and_then(|s| s.parse().ok()).unwrap_or(5)
}

fn report(name: &str, l1: isize, l0: isize, m0: usize, d0: usize) {
    let m = MADE.load(SeqCst) - m0;
    let d = DROPPED.load(SeqCst) - d0;
    println!(
        "{}: live delta {} made {} dropped {} bad {} double {}",
        name,
        l1 - l0,
        m,
        d,
        BAD.load(SeqCst),
        DOUBLE.load(SeqCst)
    );
    assert_eq!(m, d, "{} payload count", name);
    assert_eq!(BAD.load(SeqCst), 0);
    assert_eq!(DOUBLE.load(SeqCst), 0);
    if l1 - l0 != 0 { println!("LEAK? {}", l1 - l0); }
}

#[test]
fn stress_bcast() {
    QUARANTINE.store(true, SeqCst);
    println!("warm");
    thread::spawn(|| ()).join().unwrap();
    for &cap in &[1u64, 1, 2, 8, 2, 1] {
        let l0 = LIVE.load(SeqCst);
        let m0 = MADE.load(SeqCst);
        let d0 = DROPPED.load(SeqCst);
        {
            let stop = Arc::new(AtomicBool::new(false));
            let (tx, rx) = mq::broadcast_queue::<P>(cap);
            let mut hs = vec![];
            for w in 0..2 {
                let tx = tx.clone();
                let stop = stop.clone();
                hs.push(thread::spawn(move || {
                    let mut i = 0u64;
                    let mut tx = tx;
                    while !stop.load(SeqCst) {
                        match tx.try_send(P::new(i)) {
                            Ok(()) => {}
                            Err(TrySendError::Full(p)) => drop(p),
                            Err(TrySendError::Disconnected(p)) => {
                                drop(p);
                                break;
                            }
                        }
                        i += 1;
                        if i % 64 == w {
                            let t2 = tx.clone();
                            tx = t2;
                        }
                    }
                }));
            }
            drop(tx);
            for c in 0..3 {
                let r = if c == 0 { rx.clone() } else { rx.add_stream() };
                let stop = stop.clone();
                hs.push(thread::spawn(move || {
                    let mut r = r;
                    let mut n = 0u64;
                    while !stop.load(SeqCst) {
                        n += 1;
                        let r2 = r.add_stream();
                        let r3 = r2.clone();
                        for _ in 0..3 {
                            match r2.try_recv() {
                                Ok(p) => p.ok(),
                                Err(TryRecvError::Empty) => {}
                                Err(TryRecvError::Disconnected) => {}
                            }
                            if let Ok(p) = r3.try_recv() {
                                p.ok()
                            }
                            if let Ok(p) = r.try_recv() {
                                p.ok()
                            }
                        }
                        drop(r2);
                        match r3.into_single() {
                            Ok(u) => {
                                let _ = u.try_recv_view(|p| p.ok());
                                if n % 2 == 0 {
                                    let old = std::mem::replace(&mut r, u.into_multi());
                                    drop(old);
                                }
                            }
                            Err(_) => panic!(),
                        }
                    }
                }));
            }
            // main: consume on rx
            let end = Instant::now() + Duration::from_secs(secs());
            while Instant::now() < end {
                if let Ok(p) = rx.try_recv() {
                    p.ok()
                }
            }
            stop.store(true, SeqCst);
            drop(rx);
            for h in hs {
                h.join().unwrap();
            }
        }
        let l1 = LIVE.load(SeqCst);
        report(&format!("stress_bcast cap {}", cap), l1, l0, m0, d0);
    }
}

#[test]
fn stress_mpmc_fut() {
    QUARANTINE.store(true, SeqCst);
    println!("warm");
    thread::spawn(|| ()).join().unwrap();
    for &(cap, ncons) in &[(1u64, 0), (2, 0), (8, 0), (1, 2), (4, 2)] {
        let l0 = LIVE.load(SeqCst);
        let m0 = MADE.load(SeqCst);
        let d0 = DROPPED.load(SeqCst);
        {
            let stop = Arc::new(AtomicBool::new(false));
            let (tx, rx) = mq::mpmc_fut_queue::<P>(cap);
            let mut hs = vec![];
            for w in 0..2 {
                let tx = tx.clone();
                let stop = stop.clone();
                hs.push(thread::spawn(move || {
                    let mut i = 0u64;
                    let mut tx = tx;
                    while !stop.load(SeqCst) {
                        match tx.try_send(P::new(i)) {
                            Ok(()) => {}
                            Err(TrySendError::Full(p)) => drop(p),
                            Err(TrySendError::Disconnected(p)) => {
                                drop(p);
                                break;
                            }
                        }
                        i += 1;
                        if i % 64 == w {
                            let t2 = tx.clone();
                            tx = t2;
                        }
                    }
                }));
            }
            drop(tx);
            for _ in 0..ncons {
                let r = rx.clone();
                let stop = stop.clone();
                hs.push(thread::spawn(move || {
                    let mut r = r;
                    while !stop.load(SeqCst) {
                        let r2 = r.clone();
                        if let Ok(p) = r2.try_recv() {
                            p.ok()
                        }
                        if let Ok(p) = r.try_recv() {
                            p.ok()
                        }
                        drop(r);
                        r = r2;
                    }
                }));
            }
            let end = Instant::now() + Duration::from_secs(secs());
            let mut rx = Some(rx);
            while Instant::now() < end {
                let r = rx.take().unwrap();
                if let Ok(p) = r.try_recv() {
                    p.ok()
                }
                match r.into_single(getv as FP) {
                    Ok(mut u) => {
                        let _ = u.try_recv();
                        let mut u = u.transform_operation(getv as FP);
                        let _ = u.try_recv();
                        rx = Some(u.into_multi());
                    }
                    Err((_, r)) => rx = Some(r),
                }
            }
            stop.store(true, SeqCst);
            drop(rx);
            for h in hs {
                h.join().unwrap();
            }
        }
        let l1 = LIVE.load(SeqCst);
        report(&format!("stress_mpmc_fut cap {} ncons {}", cap, ncons), l1, l0, m0, d0);
    }
}

#[test]
fn stress_teardown() {
    QUARANTINE.store(false, SeqCst);
    println!("warm");
    thread::spawn(|| ()).join().unwrap();
    let end = Instant::now() + Duration::from_secs(secs() * 3);
    let mut round = 0u64;
    let l0 = LIVE.load(SeqCst);
    let m0 = MADE.load(SeqCst);
    let d0 = DROPPED.load(SeqCst);
    while Instant::now() < end {
        round += 1;
        let cap = [1u64, 2, 4][(round % 3) as usize];
        let bar = Arc::new(std::sync::Barrier::new(4));
        if round % 2 == 0 {
            let (tx, rx) = mq::mpmc_queue::<P>(cap);
            let tx2 = tx.clone();
            let rx2 = rx.clone();
            let mut hs = vec![];
            for (k, tx) in vec![tx, tx2].into_iter().enumerate() {
                let bar = bar.clone();
                hs.push(thread::spawn(move || {
                    bar.wait();
                    for i in 0..(20 + k as u64 * 7) {
                        match tx.try_send(P::new(i)) {
                            Ok(()) => {}
                            Err(TrySendError::Full(p)) => drop(p),
                            Err(TrySendError::Disconnected(p)) => {
                                drop(p);
                                break;
                            }
                        }
                    }
                }));
            }
            for (k, rx) in vec![rx, rx2].into_iter().enumerate() {
                let bar = bar.clone();
                hs.push(thread::spawn(move || {
                    bar.wait();
                    for _ in 0..(5 + k as u64 * 9 + round % 7) {
                        if let Ok(p) = rx.try_recv() {
                            p.ok()
                        }
                    }
                }));
            }
            for h in hs {
                h.join().unwrap();
            }
        } else {
            let (tx, rx) = mq::broadcast_queue::<P>(cap);
            let tx2 = tx.clone();
            let rx2 = if round % 4 == 1 { rx.clone() } else { rx.add_stream() };
            let mut hs = vec![];
            for (k, tx) in vec![tx, tx2].into_iter().enumerate() {
                let bar = bar.clone();
                hs.push(thread::spawn(move || {
                    bar.wait();
                    for i in 0..(20 + k as u64 * 7) {
                        match tx.try_send(P::new(i)) {
                            Ok(()) => {}
                            Err(TrySendError::Full(p)) => drop(p),
                            Err(TrySendError::Disconnected(p)) => {
                                drop(p);
                                break;
                            }
                        }
                    }
                }));
            }
            for (k, rx) in vec![rx, rx2].into_iter().enumerate() {
                let bar = bar.clone();
                hs.push(thread::spawn(move || {
                    bar.wait();
                    for j in 0..(5 + k as u64 * 9 + round % 7) {
                        if let Ok(p) = rx.try_recv() {
                            p.ok()
                        }
                        if j == 3 {
                            let r = rx.add_stream();
                            if let Ok(p) = r.try_recv() {
                                p.ok()
                            }
                        }
                    }
                }));
            }
            for h in hs {
                h.join().unwrap();
            }
        }
    }
    let l1 = LIVE.load(SeqCst);
    println!("rounds {}", round);
    report("teardown", l1, l0, m0, d0);
}
