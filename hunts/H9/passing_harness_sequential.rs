extern crate futures;
extern crate multiqueue2 as mq;

use std::alloc::{GlobalAlloc, Layout, System};
use std::sync::atomic::{AtomicIsize, AtomicUsize, Ordering::SeqCst};
use std::sync::mpsc::TrySendError;

struct Counting;
static LIVE: AtomicIsize = AtomicIsize::new(0);
unsafe impl GlobalAlloc for Counting {
    unsafe fn alloc(&self, l: Layout) -> *mut u8 {
        LIVE.fetch_add(l.size() as isize, SeqCst);
        System.alloc(l)
    }
    unsafe fn dealloc(&self, p: *mut u8, l: Layout) {
        LIVE.fetch_sub(l.size() as isize, SeqCst);
        System.dealloc(p, l)
    }
}
#[global_allocator]
static A: Counting = Counting;

fn getv(p: &P) -> u64 {
    *p.0
}
type FP = fn(&P) -> u64;

fn live() -> isize {
    LIVE.load(SeqCst)
}

static MADE: AtomicUsize = AtomicUsize::new(0);
static DROPPED: AtomicUsize = AtomicUsize::new(0);
struct P(Box<u64>);
impl P {
    fn new(v: u64) -> P {
        MADE.fetch_add(1, SeqCst);
        P(Box::new(v))
    }
}
impl Clone for P {
    fn clone(&self) -> P {
        MADE.fetch_add(1, SeqCst);
        P(self.0.clone())
    }
}
impl Drop for P {
    fn drop(&mut self) {
        DROPPED.fetch_add(1, SeqCst);
    }
}

fn check<F: FnOnce()>(name: &str, f: F) {
    let l0 = live();
    let m0 = MADE.load(SeqCst);
    let d0 = DROPPED.load(SeqCst);
    f();
    let l1 = live();
    let m = MADE.load(SeqCst) - m0;
    let d = DROPPED.load(SeqCst) - d0;
    println!("{}: live delta {} made {} dropped {}", name, l1 - l0, m, d);
    assert_eq!(l1 - l0, 0, "{} leaked", name);
    assert_eq!(m, d, "{} payload count", name);
}

#[test]
fn explore() {
    // warm up stdout
    println!("start");
    for &cap in &[0u64, 1, 2, 3, 8, 100] {
        check(&format!("bcast cap {} tx first", cap), || {
            let (tx, rx) = mq::broadcast_queue::<P>(cap);
            let rx2 = rx.add_stream();
            let rx3 = rx.clone();
            for i in 0..cap + 2 {
                match tx.try_send(P::new(i)) {
                    Ok(()) => {}
                    Err(TrySendError::Full(_)) => {}
                    Err(_) => panic!(),
                }
            }
            let _ = rx.try_recv();
            drop(tx);
            drop(rx3);
            let _ = rx2.try_recv();
            drop(rx);
            drop(rx2);
        });
        check(&format!("bcast cap {} rx first", cap), || {
            let (tx, rx) = mq::broadcast_queue::<P>(cap);
            let rx2 = rx.add_stream();
            let tx2 = tx.clone();
            for i in 0..cap + 2 {
                let _ = tx2.try_send(P::new(i));
            }
            let _ = rx.try_recv();
            for i in 0..cap + 2 {
                let _ = tx.try_send(P::new(i));
            }
            drop(rx);
            for i in 0..cap + 2 {
                let _ = tx.try_send(P::new(i));
            }
            drop(rx2);
            for i in 0..cap + 2 {
                let _ = tx.try_send(P::new(i));
            }
            drop(tx);
            drop(tx2);
        });
        check(&format!("mpmc cap {} rx first", cap), || {
            let (tx, rx) = mq::mpmc_queue::<P>(cap);
            let rx2 = rx.clone();
            let tx2 = tx.clone();
            for i in 0..cap + 2 {
                let _ = tx2.try_send(P::new(i));
            }
            let _ = rx.try_recv();
            for i in 0..cap + 2 {
                let _ = tx.try_send(P::new(i));
            }
            drop(rx);
            let _ = rx2.try_recv();
            for i in 0..cap + 2 {
                let _ = tx.try_send(P::new(i));
            }
            drop(rx2);
            for i in 0..cap + 2 {
                let _ = tx.try_send(P::new(i));
            }
            drop(tx);
            drop(tx2);
        });
        check(&format!("mpmc cap {} uni view", cap), || {
            let (tx, rx) = mq::mpmc_queue::<P>(cap);
            let rx = rx.into_single().ok().unwrap();
            for round in 0..5 {
                for i in 0..cap + 2 {
                    let _ = tx.try_send(P::new(i));
                }
                for _ in 0..round {
                    let _ = rx.try_recv_view(|p| *p.0);
                    let _ = rx.try_recv();
                }
            }
            let rx = rx.into_multi();
            let rx2 = rx.clone();
            let _ = rx2.try_recv();
            drop(tx);
            drop(rx);
            drop(rx2);
        });
        check(&format!("mpmc fut cap {} conversions", cap), || {
            let (tx, rx) = mq::mpmc_fut_queue::<P>(cap);
            for i in 0..cap + 2 {
                let _ = tx.try_send(P::new(i));
            }
            let mut u = rx.into_single(|p: &P| *p.0).ok().unwrap();
            let _ = u.try_recv();
            let mut u = u.transform_operation(|p: &P| *p.0 + 1);
            let _ = u.try_recv();
            for i in 0..cap + 2 {
                let _ = tx.try_send(P::new(i));
            }
            let m = u.into_multi();
            let _ = m.try_recv();
            let m2 = m.clone();
            for i in 0..cap + 2 {
                let _ = tx.try_send(P::new(i));
            }
            drop(m);
            let _ = m2.try_recv();
            for i in 0..cap + 2 {
                let _ = tx.try_send(P::new(i));
            }
            drop(m2);
            for i in 0..cap + 2 {
                let _ = tx.try_send(P::new(i));
            }
            drop(tx);
        });
        check(&format!("bcast fut cap {} conversions", cap), || {
            let (tx, rx) = mq::broadcast_fut_queue::<P>(cap);
            for i in 0..cap + 2 {
                let _ = tx.try_send(P::new(i));
            }
            let rxb = rx.add_stream();
            let mut u = rx.into_single(|p: &P| *p.0).ok().unwrap();
            let _ = u.try_recv();
            let mut u = u.transform_operation(|p: &P| *p.0 + 1);
            let _ = u.try_recv();
            let mut u2 = u.add_stream_with(|p: &P| *p.0 + 1);
            for i in 0..cap + 2 {
                let _ = tx.try_send(P::new(i));
            }
            let _ = u2.try_recv();
            let m = u.into_multi();
            let _ = m.try_recv();
            let m2 = m.clone();
            for i in 0..cap + 2 {
                let _ = tx.try_send(P::new(i));
            }
            drop(m);
            let _ = m2.try_recv();
            let _ = rxb.try_recv();
            for i in 0..cap + 2 {
                let _ = tx.try_send(P::new(i));
            }
            drop(tx);
            drop(m2);
            drop(u2);
            drop(rxb);
        });
    }

    // churn
    for &n in &[100usize, 1000, 10000, 100000] {
        let (tx, rx) = mq::broadcast_queue::<P>(4);
        let base = live();
        for i in 0..n {
            let r2 = rx.add_stream();
            let r3 = r2.clone();
            let r4 = rx.clone();
            let _ = tx.try_send(P::new(i as u64));
            let t2 = tx.clone();
            drop(r2);
            let u = r3.into_single().ok().unwrap();
            let _ = u.try_recv_view(|_| ());
            let m = u.into_multi();
            drop(m);
            drop(r4);
            drop(t2);
            let _ = rx.try_recv();
        }
        println!("bcast churn {} growth {}", n, live() - base);
        drop(tx);
        drop(rx);
    }
    for &n in &[100usize, 1000, 10000, 100000] {
        let (tx, rx) = mq::broadcast_fut_queue::<P>(4);
        let base = live();
        let mut keep = Some(rx.add_stream().into_single(getv as FP).ok().unwrap());
        for i in 0..n {
            let r2 = rx.add_stream();
            let r3 = r2.clone();
            let _ = tx.try_send(P::new(i as u64));
            drop(r2);
            let u = r3.into_single(|p: &P| *p.0).ok().unwrap();
            let mut u = u.transform_operation(|p: &P| *p.0);
            let _ = u.try_recv();
            let m = u.into_multi();
            drop(m);
            let _ = rx.try_recv();
            let mut k = keep.take().unwrap().transform_operation(getv as FP);
            let _ = k.try_recv();
            keep = Some(k.into_multi().into_single(getv as FP).ok().unwrap());
        }
        println!("bcast fut churn {} growth {}", n, live() - base);
        drop(tx);
        drop(rx);
        drop(keep);
    }
    for &n in &[100usize, 1000, 10000, 100000] {
        let (tx, rx) = mq::mpmc_fut_queue::<P>(4);
        let base = live();
        let mut rx = Some(rx);
        for i in 0..n {
            let r = rx.take().unwrap();
            let r3 = r.clone();
            let _ = tx.try_send(P::new(i as u64));
            drop(r3);
            let u = r.into_single(|p: &P| *p.0).ok().unwrap();
            let mut u = u.transform_operation(|p: &P| *p.0);
            let _ = u.try_recv();
            rx = Some(u.into_multi());
        }
        println!("mpmc fut churn {} growth {}", n, live() - base);
        drop(tx);
        drop(rx);
    }
}
