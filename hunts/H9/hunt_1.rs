// C17 candidate (borderline, see notes.md): memory held by a futures queue grows
// linearly with the number of stream add/poll/drop cycles while a fixed set of
// handles stays alive and keeps operating.
//
// Every Stream::poll that finds its stream empty pushes a clone of the current
// Task on the consumer-side park list of the queue (FutWait::park,
// src/multiqueue.rs:960-967).  Nothing removes that entry when the receiver is
// dropped (FutInnerRecv::drop, src/multiqueue.rs:1156-1165 only notifies the
// *producer* list); the consumer list is drained only by a *successful* send
// or by the drop of a sender.  While the senders are refused (Full, because a
// fixed stream lags) every churned stream that polled once leaves one Task
// behind for ever.
extern crate futures;
extern crate multiqueue2 as mq;

use futures::executor::{self, Notify};
use futures::Async;
use std::alloc::{GlobalAlloc, Layout, System};
use std::sync::atomic::{AtomicIsize, Ordering::SeqCst};
use std::sync::mpsc::{TryRecvError, TrySendError};
use std::sync::Arc;

struct Counting;
static LIVE: AtomicIsize = AtomicIsize::new(0);
unsafe impl GlobalAlloc for Counting {
    unsafe fn alloc(&self, l: Layout) -> *mut u8 {
        LIVE.fetch_add(l.size() as isize, SeqCst);
        System.alloc(l)
    }
    unsafe fn dealloc(&self, p: *mut u8, l: Layout) {
        LIVE.fetch_sub(l.size() as isize, SeqCst);
        System.dealloc(p, l)
    }
    unsafe fn realloc(&self, p: *mut u8, l: Layout, new: usize) -> *mut u8 {
        LIVE.fetch_add(new as isize - l.size() as isize, SeqCst);
        System.realloc(p, l, new)
    }
}
#[global_allocator]
static A: Counting = Counting;

struct Noop;
impl Notify for Noop {
    fn notify(&self, _id: usize) {}
}

/// Runs `cycles` churn cycles on a fresh queue and returns the number of bytes
/// the process holds more at the end of the churn than after a warm-up of 1000
/// cycles (all churned handles are gone at both points).
fn churn(cycles: usize, poll: bool) -> isize {
    let (tx, rx_lag) = mq::broadcast_fut_queue::<u64>(4);
    let rx_fast = rx_lag.add_stream();
    for i in 0..4 {
        tx.try_send(i).unwrap();
    }
    for i in 0..4 {
        assert_eq!(rx_fast.try_recv(), Ok(i));
    }
    let notify = Arc::new(Noop);
    let mut base = 0;
    for n in 0..cycles + 1000 {
        if n == 1000 {
            base = LIVE.load(SeqCst);
        }
        // the churn: one stream added, polled once (it is empty), dropped
        let r = rx_fast.add_stream();
        if poll {
            let mut task = executor::spawn(r);
            assert_eq!(task.poll_stream_notify(&notify, 0), Ok(Async::NotReady));
            drop(task);
        } else {
            assert_eq!(r.try_recv(), Err(TryRecvError::Empty));
            drop(r);
        }
        // the fixed handles keep operating (and acknowledge reclamation epochs)
        match tx.try_send(99) {
            Err(TrySendError::Full(_)) => {}
            _ => panic!("the lagging stream keeps the queue full"),
        }
        assert_eq!(rx_fast.try_recv(), Err(TryRecvError::Empty));
        drop(rx_lag.clone());
    }
    let grown = LIVE.load(SeqCst) - base;
    drop(tx);
    drop(rx_fast);
    drop(rx_lag);
    grown
}

#[test]
fn memory_grows_with_stream_cycles_that_polled() {
    let control = churn(100_000, false);
    println!("100000 cycles without poll: growth {} bytes", control);
    let g3 = churn(1_000, true);
    let g4 = churn(10_000, true);
    let g5 = churn(100_000, true);
    println!("with one poll per cycle: 10^3 cycles {} bytes, 10^4 cycles {} bytes, 10^5 cycles {} bytes", g3, g4, g5);
    assert!(control.abs() < 8192, "control grew: {}", control);
    assert!(
        g5 < 8192,
        "memory held by the queue grew by {} bytes over 10^5 add_stream/poll/drop cycles ({} over 10^4, {} over 10^3)",
        g5,
        g4,
        g3
    );
}
