extern crate futures;
extern crate multiqueue2;
use multiqueue2::*;
use std::sync::atomic::{AtomicIsize, Ordering};
use std::sync::Arc;

struct D(Arc<AtomicIsize>, usize);
impl Drop for D {
    fn drop(&mut self) {
        self.0.fetch_sub(1, Ordering::SeqCst);
    }
}
fn mk(c: &Arc<AtomicIsize>, i: usize) -> D {
    c.fetch_add(1, Ordering::SeqCst);
    D(c.clone(), i)
}
fn id(d: &D) -> usize {
    d.1
}

#[test]
fn mpmc_fut_uni_transform_into_multi() {
    let live = Arc::new(AtomicIsize::new(0));
    {
        let (tx, rx) = mpmc_fut_queue::<D>(4);
        for i in 0..4 {
            assert!(tx.try_send(mk(&live, i)).is_ok());
        }
        let mut u = rx.into_single(id as fn(&D) -> usize).ok().unwrap();
        assert_eq!(u.try_recv().unwrap(), 0);
        let mut u = u.transform_operation(id as fn(&D) -> usize);
        assert_eq!(u.try_recv().unwrap(), 1);
        assert!(tx.try_send(mk(&live, 4)).is_ok());
        assert!(tx.try_send(mk(&live, 5)).is_ok());
        assert!(tx.try_send(mk(&live, 6)).is_err());
        let m = u.into_multi();
        assert_eq!(m.try_recv().unwrap().1, 2);
        let m2 = m.clone();
        assert_eq!(m2.try_recv().unwrap().1, 3);
        let mut u = m.into_single(id as fn(&D) -> usize).err().unwrap().1;
        drop(m2);
        let mut u = u.into_single(id as fn(&D) -> usize).ok().unwrap();
        assert_eq!(u.try_recv().unwrap(), 4);
        assert_eq!(live.load(Ordering::SeqCst), 1);
    }
    assert_eq!(live.load(Ordering::SeqCst), 0);
}
