// exploratory: futures handles, sink senders, uni stream receivers, mixed direct/poll use
extern crate futures;
extern crate multiqueue2;
use futures::{Future, Sink, Stream};
use multiqueue2::*;
use std::sync::atomic::{AtomicBool, Ordering};
use std::sync::mpsc::TryRecvError;
use std::sync::{Arc, Mutex};
use std::thread;
use std::time::{Duration, Instant};

fn watchdog(name: &'static str, done: Arc<AtomicBool>, state: Arc<Mutex<String>>, secs: u64) {
    thread::spawn(move || {
        let t = Instant::now();
        while !done.load(Ordering::SeqCst) {
            if t.elapsed() > Duration::from_secs(secs) {
                eprintln!("HANG in {} at {}", name, state.lock().unwrap());
                std::process::abort();
            }
            thread::sleep(Duration::from_millis(50));
        }
    });
}

fn cp(v: &(usize, usize)) -> (usize, usize) {
    *v
}

fn run(cap: u64, producers: usize, n: usize, variant: usize) {
    let (tx, rx) = broadcast_fut_queue_with::<(usize, usize)>(cap, 2, 2);
    let logs: Arc<Mutex<Vec<Vec<(usize, usize)>>>> = Arc::new(Mutex::new(Vec::new()));
    let shared: Arc<Mutex<Vec<Vec<(usize, usize)>>>> = Arc::new(Mutex::new(Vec::new()));
    let mut hs = Vec::new();
    // uni stream via poll
    {
        let r = rx.add_stream().into_single(cp as fn(&(usize, usize)) -> (usize, usize)).ok().unwrap();
        let logs = logs.clone();
        hs.push(thread::spawn(move || {
            let mut r = r;
            let mut l = Vec::new();
            if variant % 2 == 0 {
                for x in r.wait() {
                    l.push(x.unwrap());
                }
            } else {
                // transform in the middle, and into_multi later
                let mut k = 0;
                loop {
                    match r.recv() {
                        Ok(x) => l.push(x),
                        Err(_) => break,
                    }
                    k += 1;
                    if k % 5 == 0 {
                        r = r.transform_operation(cp as fn(&(usize, usize)) -> (usize, usize));
                    }
                    if k == 17 {
                        break;
                    }
                }
                let m = r.into_multi();
                for x in m.wait() {
                    l.push(x.unwrap());
                }
            }
            logs.lock().unwrap().push(l);
        }));
    }
    // shared stream: poll consumer + direct consumer
    {
        let r = rx.add_stream();
        for m in 0..3 {
            let r = r.clone();
            let shared = shared.clone();
            hs.push(thread::spawn(move || {
                let mut l = Vec::new();
                match m {
                    0 => {
                        for x in r.wait() {
                            l.push(x.unwrap());
                        }
                    }
                    1 => loop {
                        match r.recv() {
                            Ok(x) => l.push(x),
                            Err(_) => break,
                        }
                    },
                    _ => loop {
                        match r.try_recv() {
                            Ok(x) => l.push(x),
                            Err(TryRecvError::Disconnected) => break,
                            Err(_) => thread::yield_now(),
                        }
                    },
                }
                shared.lock().unwrap().push(l);
            }));
        }
    }
    rx.unsubscribe();
    let mut ps = Vec::new();
    for pid in 0..producers {
        let t = tx.clone();
        ps.push(thread::spawn(move || {
            let mut t = t;
            for s in 0..n {
                t = t.send((pid, s)).wait().unwrap();
                if s % 7 == 3 {
                    let t2 = t.clone();
                    drop(t);
                    t = t2;
                }
            }
        }));
    }
    drop(tx);
    for p in ps {
        p.join().unwrap();
    }
    for h in hs {
        h.join().unwrap();
    }
    let logs = logs.lock().unwrap();
    for l in logs.iter() {
        assert_eq!(l.len(), producers * n, "uni stream count");
        let mut next = vec![0; producers];
        for &(p, s) in l {
            assert_eq!(next[p], s);
            next[p] += 1;
        }
    }
    let sl = shared.lock().unwrap();
    let mut seen = vec![vec![false; n]; producers];
    let mut total = 0;
    for l in sl.iter() {
        for &(p, s) in l {
            assert!(!seen[p][s], "dup");
            seen[p][s] = true;
            total += 1;
        }
    }
    assert_eq!(total, producers * n, "shared lost");
}

#[test]
fn fut_matrix() {
    let done = Arc::new(AtomicBool::new(false));
    let state = Arc::new(Mutex::new(String::new()));
    watchdog("fut_matrix", done.clone(), state.clone(), 200);
    for round in 0..4 {
        for &cap in &[1u64, 2, 4] {
            for &p in &[1usize, 2, 3] {
                for v in 0..2 {
                    *state.lock().unwrap() = format!("round {} cap {} p {} v {}", round, cap, p, v);
                    let t = Instant::now();
                    run(cap, p, 300, v);
                    if t.elapsed() > Duration::from_secs(5) {
                        eprintln!("slow: {:?} {}", t.elapsed(), state.lock().unwrap());
                    }
                }
            }
        }
        eprintln!("round {} ok", round);
    }
    done.store(true, Ordering::SeqCst);
}
