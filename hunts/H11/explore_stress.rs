// exploratory stress: view receivers, iterators, mixed receive methods, sender clone churn
extern crate multiqueue2;
use multiqueue2::wait::*;
use multiqueue2::*;
use std::sync::atomic::{AtomicBool, AtomicUsize, Ordering};
use std::sync::mpsc::{TryRecvError, TrySendError};
use std::sync::{Arc, Mutex};
use std::thread;
use std::time::{Duration, Instant};

const ALIVE: u64 = 0xA11CE_A11CE;
const DEAD: u64 = 0xDEAD_DEAD_DEAD;

#[derive(Debug)]
struct P {
    pid: usize,
    seq: usize,
    magic: Box<[u64; 4]>,
}
impl P {
    fn new(pid: usize, seq: usize) -> P {
        P {
            pid,
            seq,
            magic: Box::new([ALIVE, pid as u64, seq as u64, ALIVE]),
        }
    }
    fn check(&self) {
        let m = unsafe { std::ptr::read_volatile(&*self.magic) };
        assert_eq!(m[0], ALIVE, "dead/torn payload {:x?}", m);
        assert_eq!(m[3], ALIVE, "dead/torn payload {:x?}", m);
        assert_eq!(m[1], self.pid as u64);
        assert_eq!(m[2], self.seq as u64);
    }
}
impl Clone for P {
    fn clone(&self) -> P {
        self.check();
        let pid = self.pid;
        thread::yield_now();
        let seq = self.seq;
        self.check();
        let p = P::new(pid, seq);
        p
    }
}
impl Drop for P {
    fn drop(&mut self) {
        let m = unsafe { std::ptr::read_volatile(&*self.magic) };
        assert_eq!(m[0], ALIVE, "double drop {:x?}", m);
        unsafe { std::ptr::write_volatile(&mut *self.magic, [DEAD, DEAD, DEAD, DEAD]) };
    }
}
unsafe impl Sync for P {}

fn watchdog(name: &'static str, done: Arc<AtomicBool>, secs: u64) {
    thread::spawn(move || {
        let t = Instant::now();
        while !done.load(Ordering::SeqCst) {
            if t.elapsed() > Duration::from_secs(secs) {
                eprintln!("HANG in {}", name);
                std::process::abort();
            }
            thread::sleep(Duration::from_millis(50));
        }
    });
}

fn verify(name: &str, logs: &[Vec<(usize, usize)>], producers: usize, n: usize) {
    // each log is the sequence one stream delivered (single consumer) : exactly once + same order
    for (i, l) in logs.iter().enumerate() {
        assert_eq!(l.len(), producers * n, "{} stream {} count", name, i);
        let mut next = vec![0; producers];
        for &(p, s) in l {
            assert_eq!(next[p], s, "{} stream {} per-producer order", name, i);
            next[p] += 1;
        }
    }
    for l in logs.iter().skip(1) {
        assert!(l == &logs[0], "{}: streams disagree on order", name);
    }
}

fn bcast_run(cap: u64, producers: usize, n: usize, wait: u8) {
    let (tx, rx) = match wait {
        0 => broadcast_queue_with::<P, _>(cap, BusyWait::new()),
        1 => broadcast_queue_with::<P, _>(cap, YieldingWait::new()),
        _ => broadcast_queue_with::<P, _>(cap, BlockingWait::with_spins(1, 1)),
    };
    let logs: Arc<Mutex<Vec<Vec<(usize, usize)>>>> = Arc::new(Mutex::new(Vec::new()));
    let shared_logs: Arc<Mutex<Vec<Vec<(usize, usize)>>>> = Arc::new(Mutex::new(Vec::new()));
    let mut hs = Vec::new();
    // stream A: uni try_recv_view
    {
        let r = rx.add_stream().into_single().unwrap();
        let logs = logs.clone();
        hs.push(thread::spawn(move || {
            let mut l = Vec::new();
            loop {
                match r.try_recv_view(|v| {
                    v.check();
                    thread::yield_now();
                    v.check();
                    (v.pid, v.seq)
                }) {
                    Ok(x) => l.push(x),
                    Err((_, TryRecvError::Disconnected)) => break,
                    Err(_) => thread::yield_now(),
                }
            }
            logs.lock().unwrap().push(l);
        }));
    }
    // stream B: uni iter_with (recv_view)
    {
        let r = rx.add_stream().into_single().unwrap();
        let logs = logs.clone();
        hs.push(thread::spawn(move || {
            let l: Vec<_> = r
                .iter_with(|v| {
                    v.check();
                    (v.pid, v.seq)
                })
                .collect();
            logs.lock().unwrap().push(l);
        }));
    }
    // stream C: uni mixing try_iter_with, try_recv, recv, recv_view
    {
        let r = rx.add_stream().into_single().unwrap();
        let logs = logs.clone();
        hs.push(thread::spawn(move || {
            let mut l = Vec::new();
            let mut k = 0usize;
            loop {
                k += 1;
                match k % 4 {
                    0 => {
                        for x in r.try_iter_with(|v| (v.pid, v.seq)).take(3) {
                            l.push(x)
                        }
                    }
                    1 => match r.try_recv() {
                        Ok(v) => l.push((v.pid, v.seq)),
                        Err(TryRecvError::Disconnected) => break,
                        Err(_) => {}
                    },
                    2 => match r.recv() {
                        Ok(v) => l.push((v.pid, v.seq)),
                        Err(_) => break,
                    },
                    _ => match r.recv_view(|v| (v.pid, v.seq)) {
                        Ok(x) => l.push(x),
                        Err(_) => break,
                    },
                }
            }
            logs.lock().unwrap().push(l);
        }));
    }
    // stream D: shared by 3 consumers with different methods
    {
        let r = rx.add_stream();
        for m in 0..3 {
            let r = r.clone();
            let sl = shared_logs.clone();
            hs.push(thread::spawn(move || {
                let mut l = Vec::new();
                match m {
                    0 => {
                        for v in r {
                            v.check();
                            l.push((v.pid, v.seq));
                        }
                    }
                    1 => loop {
                        let mut any = false;
                        for v in r.try_iter() {
                            any = true;
                            l.push((v.pid, v.seq));
                        }
                        if !any {
                            match r.try_recv() {
                                Ok(v) => l.push((v.pid, v.seq)),
                                Err(TryRecvError::Disconnected) => break,
                                Err(_) => thread::yield_now(),
                            }
                        }
                    },
                    _ => loop {
                        match r.recv() {
                            Ok(v) => l.push((v.pid, v.seq)),
                            Err(_) => break,
                        }
                    },
                }
                sl.lock().unwrap().push(l);
            }));
        }
    }
    rx.unsubscribe();
    // producers with clone churn
    let mut ps = Vec::new();
    for pid in 0..producers {
        let t = tx.clone();
        ps.push(thread::spawn(move || {
            let mut t = t;
            for s in 0..n {
                let mut v = P::new(pid, s);
                loop {
                    match t.try_send(v) {
                        Ok(()) => break,
                        Err(TrySendError::Full(b)) => {
                            v = b;
                            thread::yield_now();
                        }
                        Err(TrySendError::Disconnected(_)) => panic!("disc"),
                    }
                }
                if s % 7 == 3 {
                    let t2 = t.clone();
                    drop(t);
                    t = t2;
                }
                if s % 11 == 5 {
                    let t2 = t.clone();
                    drop(t2);
                }
            }
        }));
    }
    drop(tx);
    for p in ps {
        p.join().unwrap();
    }
    for h in hs {
        h.join().unwrap();
    }
    let logs = logs.lock().unwrap();
    verify("bcast", &logs, producers, n);
    // shared stream: union exactly once, each consumer per-producer increasing
    let sl = shared_logs.lock().unwrap();
    let mut seen = vec![vec![false; n]; producers];
    let mut total = 0;
    for l in sl.iter() {
        let mut last: Vec<Option<usize>> = vec![None; producers];
        for &(p, s) in l {
            assert!(!seen[p][s], "dup on shared stream {:?}", (p, s));
            seen[p][s] = true;
            total += 1;
            if let Some(x) = last[p] {
                assert!(x < s, "consumer order");
            }
            last[p] = Some(s);
        }
        // consumer order vs global order
        let pos: std::collections::HashMap<(usize, usize), usize> =
            logs[0].iter().enumerate().map(|(i, x)| (*x, i)).collect();
        let mut lastpos = None;
        for x in l {
            let p = pos[x];
            if let Some(lp) = lastpos {
                assert!(lp < p, "shared consumer out of global order");
            }
            lastpos = Some(p);
        }
    }
    assert_eq!(total, producers * n, "shared stream lost values");
}

#[test]
fn bcast_matrix() {
    let done = Arc::new(AtomicBool::new(false));
    watchdog("bcast_matrix", done.clone(), 120);
    for round in 0..6 {
        for &cap in &[1u64, 2, 4] {
            for &p in &[1usize, 2, 3] {
                for w in 0..3u8 {
                    bcast_run(cap, p, 300, w);
                }
            }
        }
        eprintln!("round {} ok", round);
    }
    done.store(true, Ordering::SeqCst);
}

fn mpmc_run(cap: u64, producers: usize, n: usize, uni: bool, wait: u8) {
    let (tx, rx) = match wait {
        0 => mpmc_queue_with::<P, _>(cap, BusyWait::new()),
        1 => mpmc_queue_with::<P, _>(cap, YieldingWait::new()),
        _ => mpmc_queue_with::<P, _>(cap, BlockingWait::with_spins(1, 1)),
    };
    let logs: Arc<Mutex<Vec<Vec<(usize, usize)>>>> = Arc::new(Mutex::new(Vec::new()));
    let mut hs = Vec::new();
    if uni {
        let r = rx.into_single().unwrap();
        let logs = logs.clone();
        hs.push(thread::spawn(move || {
            let mut l = Vec::new();
            let mut k = 0usize;
            loop {
                k += 1;
                match k % 5 {
                    0 => {
                        for x in r.try_iter_with(|v| {
                            v.check();
                            (v.pid, v.seq)
                        })
                        .take(2)
                        {
                            l.push(x)
                        }
                    }
                    1 => match r.try_recv() {
                        Ok(v) => {
                            v.check();
                            l.push((v.pid, v.seq))
                        }
                        Err(TryRecvError::Disconnected) => break,
                        Err(_) => {}
                    },
                    2 => match r.recv() {
                        Ok(v) => {
                            v.check();
                            l.push((v.pid, v.seq))
                        }
                        Err(_) => break,
                    },
                    3 => match r.try_recv_view(|v| {
                        v.check();
                        thread::yield_now();
                        (v.pid, v.seq)
                    }) {
                        Ok(x) => l.push(x),
                        Err((_, TryRecvError::Disconnected)) => break,
                        Err(_) => {}
                    },
                    _ => match r.recv_view(|v| {
                        v.check();
                        (v.pid, v.seq)
                    }) {
                        Ok(x) => l.push(x),
                        Err(_) => break,
                    },
                }
            }
            logs.lock().unwrap().push(l);
        }));
    } else {
        for m in 0..3 {
            let r = rx.clone();
            let logs = logs.clone();
            hs.push(thread::spawn(move || {
                let mut l = Vec::new();
                match m {
                    0 => {
                        for v in r {
                            v.check();
                            l.push((v.pid, v.seq));
                        }
                    }
                    1 => loop {
                        let mut any = false;
                        for v in r.try_iter() {
                            v.check();
                            any = true;
                            l.push((v.pid, v.seq));
                        }
                        if !any {
                            match r.try_recv() {
                                Ok(v) => l.push((v.pid, v.seq)),
                                Err(TryRecvError::Disconnected) => break,
                                Err(_) => thread::yield_now(),
                            }
                        }
                    },
                    _ => loop {
                        match r.recv() {
                            Ok(v) => {
                                v.check();
                                l.push((v.pid, v.seq))
                            }
                            Err(_) => break,
                        }
                    },
                }
                logs.lock().unwrap().push(l);
            }));
        }
        drop(rx);
    }
    let mut ps = Vec::new();
    for pid in 0..producers {
        let t = tx.clone();
        ps.push(thread::spawn(move || {
            let mut t = t;
            for s in 0..n {
                let mut v = P::new(pid, s);
                loop {
                    match t.try_send(v) {
                        Ok(()) => break,
                        Err(TrySendError::Full(b)) => {
                            v = b;
                            thread::yield_now();
                        }
                        Err(TrySendError::Disconnected(_)) => panic!("disc"),
                    }
                }
                if s % 7 == 3 {
                    let t2 = t.clone();
                    drop(t);
                    t = t2;
                }
            }
        }));
    }
    drop(tx);
    for p in ps {
        p.join().unwrap();
    }
    for h in hs {
        h.join().unwrap();
    }
    let logs = logs.lock().unwrap();
    let mut seen = vec![vec![false; n]; producers];
    let mut total = 0;
    for l in logs.iter() {
        let mut last: Vec<Option<usize>> = vec![None; producers];
        for &(p, s) in l {
            assert!(!seen[p][s], "dup {:?}", (p, s));
            seen[p][s] = true;
            total += 1;
            if let Some(x) = last[p] {
                assert!(x < s, "consumer order");
            }
            last[p] = Some(s);
        }
    }
    assert_eq!(total, producers * n, "lost values");
}

#[test]
fn mpmc_matrix() {
    let done = Arc::new(AtomicBool::new(false));
    watchdog("mpmc_matrix", done.clone(), 120);
    for round in 0..6 {
        for &cap in &[1u64, 2, 4] {
            for &p in &[1usize, 2, 3] {
                for w in 0..3u8 {
                    mpmc_run(cap, p, 300, true, w);
                    mpmc_run(cap, p, 300, false, w);
                }
            }
        }
        eprintln!("round {} ok", round);
    }
    done.store(true, Ordering::SeqCst);
}

static _U: AtomicUsize = AtomicUsize::new(0);
