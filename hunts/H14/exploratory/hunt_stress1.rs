// exploratory stress: broadcast, tiny capacities, 2 producers, multi-consumer stream,
// single stream, churned streams.  Detects lost / duplicated values per stream.
extern crate multiqueue2;
use multiqueue2::wait::BusyWait;
use multiqueue2::{broadcast_queue_with, BroadcastReceiver};
use std::sync::atomic::{AtomicBool, AtomicUsize, Ordering};
use std::sync::mpsc::{TryRecvError, TrySendError};
use std::sync::Arc;
use std::thread;

const PER: usize = 1_500_000;

fn run(cap: u64, nprod: usize) {
    let (tx, rx) = broadcast_queue_with::<(usize, usize), BusyWait>(cap, BusyWait::new());
    let done = Arc::new(AtomicBool::new(false));
    let mut prods = vec![];
    // stream A: two consumers
    let a1 = rx.add_stream();
    let a2 = a1.clone();
    // stream B: single
    let b = rx.add_stream();
    // churn parent: clone of a1's stream
    let churn_parent = a1.clone();
    drop(rx);
    for p in 0..nprod {
        let t = tx.clone();
        prods.push(thread::spawn(move || {
            for i in 0..PER {
                let mut v = (p, i);
                loop {
                    match t.try_send(v) {
                        Ok(()) => break,
                        Err(TrySendError::Full(x)) => {
                            v = x;
                            thread::yield_now();
                        }
                        Err(TrySendError::Disconnected(_)) => panic!("disc"),
                    }
                }
            }
        }));
    }
    drop(tx);
    let total = PER * nprod;
    let cons = |r: BroadcastReceiver<(usize, usize)>| {
        thread::spawn(move || {
            let mut got = vec![];
            loop {
                match r.try_recv() {
                    Ok(v) => got.push(v),
                    Err(TryRecvError::Empty) => thread::yield_now(),
                    Err(TryRecvError::Disconnected) => break,
                }
            }
            got
        })
    };
    let ha1 = cons(a1);
    let ha2 = cons(a2);
    let hb = cons(b);
    let d2 = done.clone();
    let churn_errs = Arc::new(AtomicUsize::new(0));
    let ce = churn_errs.clone();
    let hch = thread::spawn(move || {
        // the churn parent never receives itself: it would hold the queue. So it
        // must go away; instead keep it and receive too (as third consumer of A)
        let mut got = vec![];
        let mut k = 0usize;
        loop {
            if d2.load(Ordering::Relaxed) {
                // drain
            }
            match churn_parent.try_recv() {
                Ok(v) => got.push(v),
                Err(TryRecvError::Empty) => thread::yield_now(),
                Err(TryRecvError::Disconnected) => break,
            }
            k += 1;
            if k % 7 == 0 {
                let s = churn_parent.add_stream();
                let mut last: Vec<Option<usize>> = vec![None; 8];
                for _ in 0..5 {
                    match s.try_recv() {
                        Ok((p, i)) => {
                            if let Some(l) = last[p] {
                                if i != l + 1 {
                                    ce.fetch_add(1, Ordering::Relaxed);
                                    eprintln!("churn stream gap p={} {} -> {}", p, l, i);
                                }
                            }
                            last[p] = Some(i);
                        }
                        Err(_) => {}
                    }
                }
                s.unsubscribe();
            }
        }
        got
    });
    for p in prods {
        p.join().unwrap();
    }
    done.store(true, Ordering::Relaxed);
    let mut a = ha1.join().unwrap();
    let a2v = ha2.join().unwrap();
    let chv = hch.join().unwrap();
    let bv = hb.join().unwrap();
    // per-consumer order check on stream A
    for part in [&a, &a2v, &chv] {
        let mut last: Vec<Option<usize>> = vec![None; nprod];
        for &(p, i) in part.iter() {
            if let Some(l) = last[p] {
                assert!(i > l, "order violated in a consumer of A: p={} {} then {}", p, l, i);
            }
            last[p] = Some(i);
        }
    }
    a.extend(a2v);
    a.extend(chv);
    assert_eq!(a.len(), total, "stream A count cap={}", cap);
    a.sort();
    a.dedup();
    assert_eq!(a.len(), total, "stream A dup cap={}", cap);
    assert_eq!(bv.len(), total, "stream B count cap={}", cap);
    let mut last: Vec<Option<usize>> = vec![None; nprod];
    for &(p, i) in bv.iter() {
        match last[p] {
            None => assert_eq!(i, 0),
            Some(l) => assert_eq!(i, l + 1, "stream B gap"),
        }
        last[p] = Some(i);
    }
    assert_eq!(churn_errs.load(Ordering::Relaxed), 0);
}

#[test]
fn stress_cap1_p1() {
    run(1, 1);
}
#[test]
fn stress_cap1_p2() {
    run(1, 2);
}
#[test]
fn stress_cap2_p2() {
    run(2, 2);
}
#[test]
fn stress_cap3_p3() {
    run(3, 3);
}
