// exploratory single-threaded differential test, plain broadcast queue
extern crate multiqueue2;
use multiqueue2::wait::BusyWait;
use multiqueue2::{broadcast_queue_with, BroadcastReceiver, BroadcastSender, BroadcastUniReceiver};
use std::sync::mpsc::{TryRecvError, TrySendError};

struct Rng(u64);
impl Rng {
    fn next(&mut self) -> u64 {
        self.0 ^= self.0 << 13;
        self.0 ^= self.0 >> 7;
        self.0 ^= self.0 << 17;
        self.0
    }
    fn below(&mut self, n: usize) -> usize {
        (self.next() % n as u64) as usize
    }
}

enum H {
    Multi(BroadcastReceiver<u64>),
    Uni(BroadcastUniReceiver<u64>),
}

struct Stream {
    cursor: usize,
    handles: Vec<H>,
}

fn run(seed: u64, cap: u64, steps: usize) {
    let n = if cap == 0 { 1 } else { cap.next_power_of_two() } as usize;
    let mut rng = Rng(seed * 2654435761 + 88172645463325252);
    let (tx, rx) = broadcast_queue_with::<u64, BusyWait>(cap, BusyWait::new());
    let mut senders: Vec<BroadcastSender<u64>> = vec![tx];
    let mut streams: Vec<Stream> = vec![Stream {
        cursor: 0,
        handles: vec![H::Multi(rx)],
    }];
    let mut log: Vec<u64> = vec![];
    let mut next_val = 1u64;
    for step in 0..steps {
        let ctx = format!("seed {} cap {} step {}", seed, cap, step);
        let op = rng.below(100);
        if op < 35 {
            // send
            if senders.is_empty() {
                continue;
            }
            let s = rng.below(senders.len());
            let v = next_val;
            next_val += 1;
            let r = senders[s].try_send(v);
            if streams.is_empty() {
                match r {
                    Err(TrySendError::Disconnected(x)) => assert_eq!(x, v),
                    other => panic!("{}: expected Disconnected got {:?}", ctx, other),
                }
            } else {
                let min = streams.iter().map(|s| s.cursor).min().unwrap();
                let outstanding = log.len() - min;
                if outstanding < n {
                    assert!(r.is_ok(), "{}: expected Ok got {:?} outstanding {}", ctx, r, outstanding);
                    log.push(v);
                } else {
                    match r {
                        Err(TrySendError::Full(x)) => assert_eq!(x, v),
                        other => panic!("{}: expected Full got {:?}", ctx, other),
                    }
                }
            }
        } else if op < 70 {
            // recv
            if streams.is_empty() {
                continue;
            }
            let si = rng.below(streams.len());
            let hi = rng.below(streams[si].handles.len());
            let cur = streams[si].cursor;
            let expect: Result<u64, TryRecvError> = if cur < log.len() {
                Ok(log[cur])
            } else if senders.is_empty() {
                Err(TryRecvError::Disconnected)
            } else {
                Err(TryRecvError::Empty)
            };
            let got = match &streams[si].handles[hi] {
                H::Multi(r) => r.try_recv(),
                H::Uni(r) => {
                    if rng.below(2) == 0 {
                        r.try_recv()
                    } else {
                        r.try_recv_view(|v| *v).map_err(|e| e.1)
                    }
                }
            };
            assert_eq!(got, expect, "{}", ctx);
            if got.is_ok() {
                streams[si].cursor += 1;
            }
        } else if op < 75 {
            // clone sender
            if !senders.is_empty() && senders.len() < 4 {
                let s = rng.below(senders.len());
                let c = senders[s].clone();
                senders.push(c);
            }
        } else if op < 80 {
            if !senders.is_empty() && (senders.len() > 1 || rng.below(20) == 0) {
                let s = rng.below(senders.len());
                let h = senders.swap_remove(s);
                if rng.below(2) == 0 {
                    drop(h)
                } else {
                    h.unsubscribe()
                }
            }
        } else if op < 85 {
            // clone receiver handle
            if streams.is_empty() {
                continue;
            }
            let si = rng.below(streams.len());
            if streams[si].handles.len() < 3 {
                let hi = rng.below(streams[si].handles.len());
                if let H::Multi(r) = &streams[si].handles[hi] {
                    let c = r.clone();
                    streams[si].handles.push(H::Multi(c));
                }
            }
        } else if op < 90 {
            // add stream
            if streams.is_empty() || streams.len() >= 4 {
                continue;
            }
            let si = rng.below(streams.len());
            let hi = rng.below(streams[si].handles.len());
            if let H::Multi(r) = &streams[si].handles[hi] {
                let c = r.add_stream();
                let cursor = streams[si].cursor;
                streams.push(Stream {
                    cursor,
                    handles: vec![H::Multi(c)],
                });
            }
        } else if op < 95 {
            // drop/unsubscribe a receiver handle
            if streams.is_empty() {
                continue;
            }
            if streams.len() == 1 && streams[0].handles.len() == 1 && rng.below(20) != 0 {
                continue;
            }
            let si = rng.below(streams.len());
            let hi = rng.below(streams[si].handles.len());
            let h = streams[si].handles.swap_remove(hi);
            let last = streams[si].handles.is_empty();
            match h {
                H::Multi(r) => {
                    if rng.below(2) == 0 {
                        drop(r)
                    } else {
                        assert_eq!(r.unsubscribe(), last, "{}", ctx);
                    }
                }
                H::Uni(r) => {
                    if rng.below(2) == 0 {
                        drop(r)
                    } else {
                        r.unsubscribe()
                    }
                }
            }
            if last {
                streams.swap_remove(si);
            }
        } else {
            // convert
            if streams.is_empty() {
                continue;
            }
            let si = rng.below(streams.len());
            let hi = rng.below(streams[si].handles.len());
            let h = streams[si].handles.swap_remove(hi);
            let single = streams[si].handles.is_empty();
            let nh = match h {
                H::Multi(r) => match r.into_single() {
                    Ok(u) => {
                        assert!(single, "{}", ctx);
                        H::Uni(u)
                    }
                    Err(r) => {
                        assert!(!single, "{}", ctx);
                        H::Multi(r)
                    }
                },
                H::Uni(u) => H::Multi(u.into_multi()),
            };
            streams[si].handles.push(nh);
        }
    }
}

#[test]
fn model_broadcast() {
    for cap in 0..10u64 {
        for seed in 1..400u64 {
            run(seed, cap, 1500);
        }
    }
}
