extern crate multiqueue2;
use std::panic::catch_unwind;
#[test]
fn bigcaps() {
    for &c in &[u64::MAX, (1u64<<62)-1, 1u64<<62, (1u64<<62)-2, (1u64<<61)+1, 1u64<<61, 1u64<<60] {
        let r = catch_unwind(|| { let (_t,_r) = multiqueue2::broadcast_queue::<u8>(c); });
        println!("cap {:#x}: {:?}", c, r.is_ok());
    }
    let (t, r) = multiqueue2::broadcast_queue::<u32>(1<<20);
    let mut n = 0; while t.try_send(n).is_ok() { n += 1; }
    println!("2^20 accepted {}", n);
    assert_eq!(n, 1<<20);
    assert_eq!(r.try_recv().unwrap(), 0);
    assert!(t.try_send(7).is_ok());
    assert!(t.try_send(7).is_err());
    let (t, r) = multiqueue2::broadcast_queue::<u32>((1<<20)+1);
    let mut n = 0; while t.try_send(n).is_ok() { n += 1; }
    assert_eq!(n, 1<<21);
    drop(r);
}
