// exploratory stress: mpmc, tiny capacities, drop accounting + capacity bound check
extern crate multiqueue2;
use multiqueue2::mpmc_queue_with;
use multiqueue2::wait::BusyWait;
use std::sync::atomic::{AtomicIsize, AtomicUsize, Ordering};
use std::sync::mpsc::{TryRecvError, TrySendError};
use std::sync::Arc;
use std::thread;

static LIVE: AtomicIsize = AtomicIsize::new(0);
static MADE: AtomicUsize = AtomicUsize::new(0);
static DROPPED: AtomicUsize = AtomicUsize::new(0);

struct P(usize, usize, Box<usize>);
impl P {
    fn new(p: usize, i: usize) -> P {
        LIVE.fetch_add(1, Ordering::SeqCst);
        MADE.fetch_add(1, Ordering::SeqCst);
        P(p, i, Box::new(i))
    }
}
impl Clone for P {
    fn clone(&self) -> P {
        P::new(self.0, self.1)
    }
}
impl Drop for P {
    fn drop(&mut self) {
        assert_eq!(*self.2, self.1);
        LIVE.fetch_sub(1, Ordering::SeqCst);
        DROPPED.fetch_add(1, Ordering::SeqCst);
    }
}

const PER: usize = 400_000;

fn run(cap: u64, nprod: usize, ncons: usize) {
    let n = if cap == 0 { 1 } else { cap.next_power_of_two() } as isize;
    let (tx, rx) = mpmc_queue_with::<P, BusyWait>(cap, BusyWait::new());
    // accepted - consumed (begun) must never exceed n
    let accepted = Arc::new(AtomicIsize::new(0));
    let consumed = Arc::new(AtomicIsize::new(0));
    let mut hs = vec![];
    for p in 0..nprod {
        let t = tx.clone();
        let acc = accepted.clone();
        let con = consumed.clone();
        hs.push(thread::spawn(move || {
            for i in 0..PER {
                let mut v = P::new(p, i);
                loop {
                    match t.try_send(v) {
                        Ok(()) => {
                            // consumed is read AFTER the send returned; accepted before:
                            let a = acc.fetch_add(1, Ordering::SeqCst) + 1;
                            let c = con.load(Ordering::SeqCst);
                            // a counts sends that returned (<= really accepted), c counts
                            // receives that returned (>= begun-and-returned). outstanding
                            // as seen here can only under-estimate -> violation is real
                            // only with margin for in-flight producers
                            assert!(a - c <= n + 0, "bound: accepted {} consumed {} n {}", a, c, n);
                            break;
                        }
                        Err(TrySendError::Full(x)) => {
                            v = x;
                            thread::yield_now();
                        }
                        Err(TrySendError::Disconnected(_)) => panic!("disc"),
                    }
                }
            }
        }));
    }
    drop(tx);
    let mut cs = vec![];
    for _ in 0..ncons {
        let r = rx.clone();
        let con = consumed.clone();
        cs.push(thread::spawn(move || {
            let mut got = vec![];
            loop {
                // count the receive as begun before calling
                con.fetch_add(1, Ordering::SeqCst);
                match r.try_recv() {
                    Ok(v) => got.push((v.0, v.1)),
                    Err(TryRecvError::Empty) => {
                        con.fetch_sub(1, Ordering::SeqCst);
                        thread::yield_now()
                    }
                    Err(TryRecvError::Disconnected) => {
                        con.fetch_sub(1, Ordering::SeqCst);
                        break;
                    }
                }
            }
            got
        }));
    }
    drop(rx);
    for h in hs {
        h.join().unwrap();
    }
    let mut all = vec![];
    for c in cs {
        let part = c.join().unwrap();
        let mut last: Vec<Option<usize>> = vec![None; nprod];
        for &(p, i) in part.iter() {
            if let Some(l) = last[p] {
                assert!(i > l);
            }
            last[p] = Some(i);
        }
        all.extend(part);
    }
    assert_eq!(all.len(), PER * nprod);
    all.sort();
    all.dedup();
    assert_eq!(all.len(), PER * nprod);
}

#[test]
fn mpmc_all() {
    // NOTE the bound assertion above is racy in the unsafe direction (a send that has
    // returned may be counted before an earlier one) - it is only a tripwire
    run(1, 1, 3);
    run(1, 3, 3);
    run(2, 3, 2);
    run(3, 2, 3);
    assert_eq!(LIVE.load(Ordering::SeqCst), 0, "leak or double drop");
    assert_eq!(MADE.load(Ordering::SeqCst), DROPPED.load(Ordering::SeqCst));
}
