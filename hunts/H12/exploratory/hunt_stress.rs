// exploratory stress for the mpmc flavour (not a deliverable)
extern crate multiqueue2;
use multiqueue2::*;
use std::sync::atomic::{AtomicUsize, Ordering::*};
use std::sync::mpsc::{TryRecvError, TrySendError};
use std::sync::{Arc, Barrier};
use std::thread;

const MAXID: usize = 1 << 16;

struct World {
    state: Vec<AtomicUsize>,  // 0 none, 1 alive, 2 dropped
    recvd: Vec<AtomicUsize>,  // times delivered
    accepted: Vec<AtomicUsize>,
    double_drop: AtomicUsize,
    next: AtomicUsize,
}

impl World {
    fn new() -> Arc<World> {
        Arc::new(World {
            state: (0..MAXID).map(|_| AtomicUsize::new(0)).collect(),
            recvd: (0..MAXID).map(|_| AtomicUsize::new(0)).collect(),
            accepted: (0..MAXID).map(|_| AtomicUsize::new(0)).collect(),
            double_drop: AtomicUsize::new(0),
            next: AtomicUsize::new(0),
        })
    }
}

struct P {
    id: usize,
    prod: usize,
    seq: usize,
    w: Arc<World>,
    canary: Box<usize>,
}

impl P {
    fn new(w: &Arc<World>, prod: usize, seq: usize) -> P {
        let id = w.next.fetch_add(1, SeqCst);
        assert!(id < MAXID);
        w.state[id].store(1, SeqCst);
        P { id, prod, seq, w: w.clone(), canary: Box::new(id ^ 0x5a5a) }
    }
}

impl Drop for P {
    fn drop(&mut self) {
        assert_eq!(*self.canary, self.id ^ 0x5a5a);
        let prev = self.w.state[self.id].swap(2, SeqCst);
        if prev != 1 {
            self.w.double_drop.fetch_add(1, SeqCst);
        }
    }
}

struct Rng(u64);
impl Rng {
    fn next(&mut self) -> u64 {
        self.0 ^= self.0 << 13;
        self.0 ^= self.0 >> 7;
        self.0 ^= self.0 << 17;
        self.0
    }
    fn below(&mut self, n: u64) -> u64 {
        self.next() % n
    }
}

fn note(w: &World, v: &P, last: &mut Vec<isize>) {
    assert_eq!(*v.canary, v.id ^ 0x5a5a);
    assert_eq!(w.state[v.id].load(SeqCst), 1, "received a dead value");
    let n = w.recvd[v.id].fetch_add(1, SeqCst);
    assert_eq!(n, 0, "duplicate delivery of {}", v.id);
    assert_eq!(w.accepted[v.id].load(SeqCst) <= 1, true);
    assert!(last[v.prod] < v.seq as isize, "order violated");
    last[v.prod] = v.seq as isize;
}

fn one_round(seed: u64) {
    let mut rng = Rng(seed | 1);
    let w = World::new();
    let cap = [0u64, 1, 2, 3, 4, 8][rng.below(6) as usize];
    let nprod = 1 + rng.below(3) as usize;
    let ncons = 1 + rng.below(3) as usize;
    let per = 20 + rng.below(200) as usize;
    let drain_all = rng.below(2) == 0;
    let wait_kind = rng.below(3);
    let (tx, rx) = match wait_kind {
        0 => mpmc_queue::<P>(cap),
        1 => mpmc_queue_with::<P, _>(cap, wait::YieldingWait::with_spins(1, 1)),
        _ => mpmc_queue_with::<P, _>(cap, wait::BlockingWait::with_spins(0, 0)),
    };
    let bar = Arc::new(Barrier::new(nprod + ncons));
    let mut hs = vec![];
    for p in 0..nprod {
        let tx = tx.clone();
        let w = w.clone();
        let bar = bar.clone();
        let mut r = Rng(rng.next() | 1);
        hs.push(thread::spawn(move || {
            bar.wait();
            let mut extra: Vec<MPMCSender<P>> = vec![];
            for s in 0..per {
                let mut v = P::new(&w, p, s);
                loop {
                    let h = if !extra.is_empty() && r.below(2) == 0 { &extra[0] } else { &tx };
                    let id = v.id;
                    w.accepted[id].store(1, SeqCst);
                    match h.try_send(v) {
                        Ok(()) => break,
                        Err(TrySendError::Full(b)) => {
                            w.accepted[id].store(0, SeqCst);
                            v = b;
                            thread::yield_now();
                        }
                        Err(TrySendError::Disconnected(b)) => {
                            w.accepted[id].store(0, SeqCst);
                            drop(b);
                            return;
                        }
                    }
                }
                match r.below(16) {
                    0 => extra.push(tx.clone()),
                    1 => {
                        extra.pop();
                    }
                    _ => {}
                }
            }
        }));
    }
    drop(tx);
    for _c in 0..ncons {
        let rx = rx.clone();
        let w = w.clone();
        let bar = bar.clone();
        let mut r = Rng(rng.next() | 1);
        hs.push(thread::spawn(move || {
            bar.wait();
            let mut last = vec![-1isize; 3];
            let mut handles = vec![rx];
            let quota = if drain_all { usize::MAX } else { r.below(300) as usize };
            let mut got = 0;
            loop {
                if got >= quota {
                    return;
                }
                let i = r.below(handles.len() as u64) as usize;
                match r.below(24) {
                    0 => {
                        let h = handles[i].clone();
                        handles.push(h);
                    }
                    1 if handles.len() > 1 => {
                        let h = handles.swap_remove(i);
                        if r.below(2) == 0 {
                            assert!(!h.unsubscribe());
                        }
                    }
                    2 => {
                        // try to become single
                        let h = handles.swap_remove(i);
                        match h.into_single() {
                            Ok(s) => {
                                for _ in 0..r.below(4) {
                                    let res = if r.below(2) == 0 {
                                        s.try_recv_view(|v| {
                                            note(&w, v, &mut last);
                                        })
                                        .map_err(|e| e.1)
                                    } else {
                                        s.try_recv().map(|v| note(&w, &v, &mut last))
                                    };
                                    match res {
                                        Ok(()) => got += 1,
                                        Err(_) => break,
                                    }
                                }
                                handles.push(s.into_multi());
                            }
                            Err(h) => handles.push(h),
                        }
                    }
                    3 | 4 | 5 => match handles[i].recv() {
                        Ok(v) => {
                            note(&w, &v, &mut last);
                            got += 1;
                        }
                        Err(_) => {
                            // must stay disconnected
                            for h in &handles {
                                assert!(matches!(h.try_recv(), Err(TryRecvError::Disconnected)));
                            }
                            return;
                        }
                    },
                    _ => match handles[i].try_recv() {
                        Ok(v) => {
                            note(&w, &v, &mut last);
                            got += 1;
                        }
                        Err(TryRecvError::Empty) => thread::yield_now(),
                        Err(TryRecvError::Disconnected) => {
                            for h in &handles {
                                assert!(matches!(h.try_recv(), Err(TryRecvError::Disconnected)));
                            }
                            return;
                        }
                    },
                }
            }
        }));
    }
    drop(rx);
    for h in hs {
        h.join().unwrap();
    }
    let n = w.next.load(SeqCst);
    assert_eq!(w.double_drop.load(SeqCst), 0, "double drop seed {}", seed);
    for id in 0..n {
        assert_eq!(w.state[id].load(SeqCst), 2, "leak id {} seed {}", id, seed);
        if drain_all && w.accepted[id].load(SeqCst) == 1 {
            assert_eq!(w.recvd[id].load(SeqCst), 1, "lost id {} seed {}", id, seed);
        }
        if w.accepted[id].load(SeqCst) == 0 {
            assert_eq!(w.recvd[id].load(SeqCst), 0, "refused delivered");
        }
    }
}

#[test]
fn stress() {
    let n: u64 = std::env::var("ROUNDS").ok().and_then(|s| s.parse().ok()).unwrap_or(300);
    let base: u64 = std::env::var("SEED").ok().and_then(|s| s.parse().ok()).unwrap_or(12345);
    for i in 0..n {
        one_round(base.wrapping_mul(6364136223846793005).wrapping_add(i * 7919 + 1));
    }
}

impl Clone for P {
    fn clone(&self) -> P {
        panic!("mpmc flavour must never clone a payload");
    }
}
