// exploratory sequential model check of the futures mpmc API (not a deliverable)
extern crate multiqueue2;
use multiqueue2::*;
use std::cell::RefCell;
use std::collections::VecDeque;
use std::rc::Rc;
use std::sync::atomic::{AtomicUsize, Ordering::*};
use std::sync::mpsc::{TryRecvError, TrySendError};
use std::sync::Arc;

struct P {
    id: usize,
    st: Arc<Vec<AtomicUsize>>,
}
impl Clone for P {
    fn clone(&self) -> P {
        panic!("clone")
    }
}
impl Drop for P {
    fn drop(&mut self) {
        let prev = self.st[self.id].swap(2, SeqCst);
        assert_eq!(prev, 1, "double drop of {}", self.id);
    }
}

struct Rng(u64);
impl Rng {
    fn next(&mut self) -> u64 {
        self.0 ^= self.0 << 13;
        self.0 ^= self.0 >> 7;
        self.0 ^= self.0 << 17;
        self.0
    }
    fn below(&mut self, n: u64) -> u64 {
        self.next() % n
    }
}

enum H {
    Multi(MPMCFutReceiver<P>),
    Uni(MPMCFutUniReceiver<usize, Box<dyn FnMut(&P) -> usize>, P>),
}

fn round(seed: u64) {
    let mut r = Rng(seed | 1);
    let req = r.below(6);
    let n = std::cmp::max(1, req).next_power_of_two() as usize;
    let st: Arc<Vec<AtomicUsize>> = Arc::new((0..4096).map(|_| AtomicUsize::new(0)).collect());
    let seen: Rc<RefCell<Vec<usize>>> = Rc::new(RefCell::new(vec![]));
    let (tx, rx) = mpmc_fut_queue::<P>(req);
    let mut txs = vec![tx];
    let mut rxs = vec![H::Multi(rx)];
    let mut model: VecDeque<usize> = VecDeque::new();
    let mut next = 0usize;
    let steps = 50 + r.below(400);
    let mk = |seen: &Rc<RefCell<Vec<usize>>>| -> Box<dyn FnMut(&P) -> usize> {
        let seen = seen.clone();
        Box::new(move |p: &P| {
            seen.borrow_mut().push(p.id);
            p.id
        })
    };
    for _ in 0..steps {
        match r.below(12) {
            0 | 1 | 2 | 3 => {
                if txs.is_empty() {
                    continue;
                }
                let i = r.below(txs.len() as u64) as usize;
                let id = next;
                next += 1;
                st[id].store(1, SeqCst);
                let res = txs[i].try_send(P { id, st: st.clone() });
                if rxs.is_empty() {
                    assert!(matches!(res, Err(TrySendError::Disconnected(_))), "seed {}", seed);
                } else if model.len() == n {
                    assert!(matches!(res, Err(TrySendError::Full(_))), "seed {}", seed);
                } else {
                    assert!(res.is_ok(), "spurious refusal seed {} len {} n {}", seed, model.len(), n);
                    model.push_back(id);
                }
            }
            4 | 5 | 6 => {
                if rxs.is_empty() {
                    continue;
                }
                let i = r.below(rxs.len() as u64) as usize;
                let res = match &mut rxs[i] {
                    H::Multi(h) => h.try_recv().map(|p| p.id),
                    H::Uni(u) => {
                        let x = u.try_recv();
                        if let Ok(id) = x {
                            assert_eq!(seen.borrow_mut().pop(), Some(id));
                        }
                        x
                    }
                };
                match model.pop_front() {
                    Some(id) => assert_eq!(res.ok(), Some(id), "seed {}", seed),
                    None => {
                        if txs.is_empty() {
                            assert_eq!(res.err(), Some(TryRecvError::Disconnected));
                        } else {
                            assert_eq!(res.err(), Some(TryRecvError::Empty));
                        }
                    }
                }
            }
            7 => {
                if !txs.is_empty() && r.below(2) == 0 {
                    let t = txs[0].clone();
                    txs.push(t);
                } else if !txs.is_empty() {
                    let i = r.below(txs.len() as u64) as usize;
                    txs.swap_remove(i);
                }
            }
            8 => {
                if rxs.is_empty() {
                    continue;
                }
                let i = r.below(rxs.len() as u64) as usize;
                if let H::Multi(h) = &rxs[i] {
                    let c = h.clone();
                    rxs.push(H::Multi(c));
                }
            }
            9 => {
                if rxs.len() > 1 || (rxs.len() == 1 && r.below(8) == 0) {
                    let i = r.below(rxs.len() as u64) as usize;
                    let last = rxs.len() == 1;
                    match rxs.swap_remove(i) {
                        H::Multi(h) => {
                            if r.below(2) == 0 {
                                assert_eq!(h.unsubscribe(), last);
                            }
                        }
                        H::Uni(u) => {
                            if r.below(2) == 0 {
                                assert_eq!(u.unsubscribe(), last);
                            }
                        }
                    }
                }
            }
            _ => {
                if rxs.is_empty() {
                    continue;
                }
                let i = r.below(rxs.len() as u64) as usize;
                let total = rxs.len();
                let h = rxs.swap_remove(i);
                let nh = match h {
                    H::Multi(m) => match m.into_single(mk(&seen)) {
                        Ok(u) => {
                            assert_eq!(total, 1);
                            H::Uni(u)
                        }
                        Err((_, m)) => {
                            assert!(total > 1);
                            H::Multi(m)
                        }
                    },
                    H::Uni(u) => {
                        if r.below(2) == 0 {
                            H::Uni(u.transform_operation(mk(&seen)))
                        } else {
                            H::Multi(u.into_multi())
                        }
                    }
                };
                rxs.push(nh);
            }
        }
    }
    // teardown in random order
    while !txs.is_empty() || !rxs.is_empty() {
        if !txs.is_empty() && (rxs.is_empty() || r.below(2) == 0) {
            txs.pop();
        } else {
            rxs.pop();
        }
    }
    for id in 0..next {
        assert_eq!(st[id].load(SeqCst), 2, "leak of {} seed {}", id, seed);
    }
}

#[test]
fn seq() {
    let n: u64 = std::env::var("ROUNDS").ok().and_then(|s| s.parse().ok()).unwrap_or(20000);
    for i in 0..n {
        round(i.wrapping_mul(0x9E3779B97F4A7C15).wrapping_add(17));
    }
}
