// exploratory stress for the futures mpmc flavour (not a deliverable)
extern crate futures;
extern crate multiqueue2;
use futures::executor::spawn;
use futures::{Future, Sink};
use multiqueue2::*;
use std::sync::atomic::{AtomicUsize, Ordering::*};
use std::sync::mpsc::{TryRecvError, TrySendError};
use std::sync::{Arc, Barrier};
use std::thread;

const MAXID: usize = 1 << 16;

struct World {
    state: Vec<AtomicUsize>,
    recvd: Vec<AtomicUsize>,
    accepted: Vec<AtomicUsize>,
    double_drop: AtomicUsize,
    next: AtomicUsize,
}

impl World {
    fn new() -> Arc<World> {
        Arc::new(World {
            state: (0..MAXID).map(|_| AtomicUsize::new(0)).collect(),
            recvd: (0..MAXID).map(|_| AtomicUsize::new(0)).collect(),
            accepted: (0..MAXID).map(|_| AtomicUsize::new(0)).collect(),
            double_drop: AtomicUsize::new(0),
            next: AtomicUsize::new(0),
        })
    }
}

struct P {
    id: usize,
    prod: usize,
    seq: usize,
    w: Arc<World>,
    canary: Box<usize>,
}

impl P {
    fn new(w: &Arc<World>, prod: usize, seq: usize) -> P {
        let id = w.next.fetch_add(1, SeqCst);
        assert!(id < MAXID);
        w.state[id].store(1, SeqCst);
        P { id, prod, seq, w: w.clone(), canary: Box::new(id ^ 0x5a5a) }
    }
}

impl Clone for P {
    fn clone(&self) -> P {
        panic!("mpmc flavour must never clone a payload");
    }
}

impl Drop for P {
    fn drop(&mut self) {
        assert_eq!(*self.canary, self.id ^ 0x5a5a);
        let prev = self.w.state[self.id].swap(2, SeqCst);
        if prev != 1 {
            self.w.double_drop.fetch_add(1, SeqCst);
        }
    }
}

struct Rng(u64);
impl Rng {
    fn next(&mut self) -> u64 {
        self.0 ^= self.0 << 13;
        self.0 ^= self.0 >> 7;
        self.0 ^= self.0 << 17;
        self.0
    }
    fn below(&mut self, n: u64) -> u64 {
        self.next() % n
    }
}

fn note(w: &World, v: &P, last: &mut Vec<isize>) {
    assert_eq!(*v.canary, v.id ^ 0x5a5a);
    assert_eq!(w.state[v.id].load(SeqCst), 1, "received a dead value");
    let n = w.recvd[v.id].fetch_add(1, SeqCst);
    assert_eq!(n, 0, "duplicate delivery of {}", v.id);
    assert!(last[v.prod] < v.seq as isize, "order violated");
    last[v.prod] = v.seq as isize;
}

type Uni = MPMCFutUniReceiver<usize, Box<dyn FnMut(&P) -> usize + Send>, P>;

fn mk_op(w: &Arc<World>, last: &Arc<std::sync::Mutex<Vec<isize>>>) -> Box<dyn FnMut(&P) -> usize + Send> {
    let w = w.clone();
    let last = last.clone();
    Box::new(move |v: &P| {
        let mut l = last.lock().unwrap();
        note(&w, v, &mut l);
        v.id
    })
}

fn one_round(seed: u64) {
    let mut rng = Rng(seed | 1);
    let w = World::new();
    let cap = [0u64, 1, 2, 3, 4, 8][rng.below(6) as usize];
    let nprod = 1 + rng.below(3) as usize;
    let ncons = std::env::var("NCONS").ok().and_then(|s| s.parse().ok()).unwrap_or(1 + rng.below(3) as usize);
    let per = std::env::var("PER").ok().and_then(|s| s.parse().ok()).unwrap_or(20 + rng.below(200) as usize);
    let drain_all = rng.below(2) == 0;
    let (tx, rx) = mpmc_fut_queue::<P>(cap);
    let bar = Arc::new(Barrier::new(nprod + ncons));
    let mut hs = vec![];
    for p in 0..nprod {
        let mut tx = tx.clone();
        let w = w.clone();
        let bar = bar.clone();
        let mut r = Rng(rng.next() | 1);
        hs.push(thread::spawn(move || {
            bar.wait();
            for s in 0..per {
                let mut v = P::new(&w, p, s);
                let id = v.id;
                w.accepted[id].store(1, SeqCst);
                if r.below(2) == 0 {
                    match tx.send(v).wait() {
                        Ok(t) => tx = t,
                        Err(e) => {
                            w.accepted[id].store(0, SeqCst);
                            drop(e);
                            return;
                        }
                    }
                } else {
                    loop {
                        match tx.try_send(v) {
                            Ok(()) => break,
                            Err(TrySendError::Full(b)) => {
                                v = b;
                                thread::yield_now();
                            }
                            Err(TrySendError::Disconnected(b)) => {
                                w.accepted[id].store(0, SeqCst);
                                drop(b);
                                return;
                            }
                        }
                    }
                }
                if r.below(16) == 0 {
                    let t2 = tx.clone();
                    tx = t2;
                }
            }
        }));
    }
    drop(tx);
    for _c in 0..ncons {
        let rx = rx.clone();
        let w = w.clone();
        let bar = bar.clone();
        let mut r = Rng(rng.next() | 1);
        hs.push(thread::spawn(move || {
            bar.wait();
            let last = Arc::new(std::sync::Mutex::new(vec![-1isize; 3]));
            let mut handles = vec![rx];
            let quota = if drain_all { usize::MAX } else { r.below(300) as usize };
            let mut got = 0;
            loop {
                if got >= quota {
                    return;
                }
                let i = r.below(handles.len() as u64) as usize;
                match r.below(24) {
                    0 => {
                        let h = handles[i].clone();
                        handles.push(h);
                    }
                    1 if handles.len() > 1 => {
                        let h = handles.swap_remove(i);
                        if r.below(2) == 0 {
                            assert!(!h.unsubscribe());
                        }
                    }
                    2 => {
                        let h = handles.swap_remove(i);
                        match h.into_single(mk_op(&w, &last)) {
                            Ok(s) => {
                                let mut s: Uni = s;
                                for _ in 0..r.below(4) {
                                    let res = match r.below(3) {
                                        0 => s.try_recv().map(|_| ()).map_err(|_| ()),
                                        1 => {
                                            s = s.transform_operation(mk_op(&w, &last));
                                            s.try_recv().map(|_| ()).map_err(|_| ())
                                        }
                                        _ => {
                                            let mut sp = spawn(s);
                                            let rr = match sp.wait_stream() {
                                                Some(Ok(_)) => Ok(()),
                                                _ => Err(()),
                                            };
                                            s = sp.into_inner();
                                            rr
                                        }
                                    };
                                    match res {
                                        Ok(()) => got += 1,
                                        Err(_) => break,
                                    }
                                }
                                handles.push(s.into_multi());
                            }
                            Err((_, h)) => handles.push(h),
                        }
                    }
                    3 | 4 => match handles[i].recv() {
                        Ok(v) => {
                            note(&w, &v, &mut last.lock().unwrap());
                            got += 1;
                        }
                        Err(_) => {
                            for h in &handles {
                                assert!(matches!(h.try_recv(), Err(TryRecvError::Disconnected)));
                            }
                            return;
                        }
                    },
                    5 | 6 | 7 => {
                        let h = handles.swap_remove(i);
                        let mut sp = spawn(h);
                        let res = sp.wait_stream();
                        handles.push(sp.into_inner());
                        match res {
                            Some(Ok(v)) => {
                                note(&w, &v, &mut last.lock().unwrap());
                                got += 1;
                            }
                            None => {
                                for h in &handles {
                                    assert!(matches!(h.try_recv(), Err(TryRecvError::Disconnected)));
                                }
                                return;
                            }
                            Some(Err(())) => panic!("stream error"),
                        }
                    }
                    _ => match handles[i].try_recv() {
                        Ok(v) => {
                            note(&w, &v, &mut last.lock().unwrap());
                            got += 1;
                        }
                        Err(TryRecvError::Empty) => thread::yield_now(),
                        Err(TryRecvError::Disconnected) => {
                            for h in &handles {
                                assert!(matches!(h.try_recv(), Err(TryRecvError::Disconnected)));
                            }
                            return;
                        }
                    },
                }
            }
        }));
    }
    drop(rx);
    for h in hs {
        h.join().unwrap();
    }
    let n = w.next.load(SeqCst);
    assert_eq!(w.double_drop.load(SeqCst), 0, "double drop seed {}", seed);
    for id in 0..n {
        assert_eq!(w.state[id].load(SeqCst), 2, "leak id {} seed {}", id, seed);
        if drain_all && w.accepted[id].load(SeqCst) == 1 {
            assert_eq!(w.recvd[id].load(SeqCst), 1, "lost id {} seed {}", id, seed);
        }
        if w.accepted[id].load(SeqCst) == 0 {
            assert_eq!(w.recvd[id].load(SeqCst), 0, "refused delivered");
        }
    }
}

#[test]
fn fstress() {
    let n: u64 = std::env::var("ROUNDS").ok().and_then(|s| s.parse().ok()).unwrap_or(300);
    let base: u64 = std::env::var("SEED").ok().and_then(|s| s.parse().ok()).unwrap_or(12345);
    for i in 0..n {
        let seed = base.wrapping_mul(6364136223846793005).wrapping_add(i * 7919 + 1);
        if std::env::var("VERBOSE").is_ok() {
            eprintln!("round {} seed {}", i, seed);
        }
        one_round(seed);
    }
}
