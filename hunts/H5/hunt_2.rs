// C05 / C04 / C01: try_recv_view(&self, op) hands `op` a reference into the
// slot BEFORE the stream position is advanced, and takes `&self`.  A closure
// that uses the same receiver again (perfectly legal safe Rust: it only needs
// a shared borrow) therefore sees the same slot a second time.  On an mpmc
// (move-out) queue the inner call destroys the payload in place while the
// outer closure still holds `&T` to it, and the outer call then destroys it
// again: use-after-free + double drop from safe code.
extern crate multiqueue2 as multiqueue;

use std::sync::atomic::{AtomicUsize, Ordering};

struct Payload {
    id: usize,
    drops: &'static [AtomicUsize],
}

impl Drop for Payload {
    fn drop(&mut self) {
        self.drops[self.id].fetch_add(1, Ordering::SeqCst);
    }
}

#[test]
fn reentrant_view_destroys_the_viewed_payload() {
    let drops: &'static [AtomicUsize] = Box::leak(
        (0..2)
            .map(|_| AtomicUsize::new(0))
            .collect::<Vec<_>>()
            .into_boxed_slice(),
    );
    let mut seen_inner = None;
    let mut drops_while_viewed = 0;
    {
        let (tx, rx) = multiqueue::mpmc_queue::<Payload>(4);
        let rx = match rx.into_single() {
            Ok(r) => r,
            Err(_) => panic!("single consumer"),
        };
        assert!(tx.try_send(Payload { id: 0, drops }).is_ok());
        assert!(tx.try_send(Payload { id: 1, drops }).is_ok());

        let outer = rx.try_recv_view(|p: &Payload| {
            // same receiver, shared borrow only
            seen_inner = rx.try_recv_view(|q: &Payload| q.id).ok();
            // `p` is still borrowed here; has the payload it points to been destroyed?
            drops_while_viewed = drops[0].load(Ordering::SeqCst);
            p.id
        });
        let outer = outer.ok();
        println!(
            "outer view saw {:?}, nested view saw {:?}, payload 0 dropped {} time(s) while still being viewed",
            outer, seen_inner, drops_while_viewed
        );
        let next = rx.try_recv_view(|q: &Payload| q.id).ok();
        println!("next value delivered to the stream: {:?}", next);
    }
    let counts: Vec<usize> = drops.iter().map(|d| d.load(Ordering::SeqCst)).collect();
    println!("total drops per payload: {:?}", counts);
    // C01: one stream, one consumer: value 0 must be delivered once
    assert_ne!(seen_inner, Some(0), "value 0 was delivered twice to the same stream");
    // C04: the viewed value stays valid for the whole closure call
    assert_eq!(drops_while_viewed, 0, "payload destroyed while a view closure holds &T to it");
    // C05
    assert_eq!(counts, vec![1, 1], "every payload must be dropped exactly once");
}
