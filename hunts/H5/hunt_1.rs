// C05 (and C04): on an mpmc (move-out) futures queue,
// MPMCFutUniReceiver::add_stream_with() subscribes a SECOND stream.
// Both streams then view every value in place and each of them runs
// ptr::drop_in_place on the slot afterwards (MultiQueue::try_recv_view,
// RW = MPMC), so every payload is destroyed twice and the second stream is
// handed a reference to an already destroyed value.
extern crate multiqueue2 as multiqueue;

use std::sync::atomic::{AtomicUsize, Ordering};

struct Payload {
    id: usize,
    drops: &'static [AtomicUsize],
}

impl Drop for Payload {
    fn drop(&mut self) {
        self.drops[self.id].fetch_add(1, Ordering::SeqCst);
    }
}

#[test]
fn mpmc_second_stream_drops_every_payload_twice() {
    const N: usize = 4;
    // leaked on purpose: the payload must not own anything, so that the double
    // drop shows up as a clean count instead of heap corruption
    let drops: &'static [AtomicUsize] =
        Box::leak((0..N).map(|_| AtomicUsize::new(0)).collect::<Vec<_>>().into_boxed_slice());

    {
        let (tx, rx) = multiqueue::mpmc_fut_queue::<Payload>(4);
        let mut a = match rx.into_single(|p: &Payload| p.id) {
            Ok(a) => a,
            Err(_) => panic!("only one consumer on the stream"),
        };
        // second stream on a move-out queue
        let mut b = a.add_stream_with(|p: &Payload| p.id);

        for id in 0..N {
            assert!(tx
                .try_send(Payload {
                    id,
                    drops,
                })
                .is_ok());
        }
        for id in 0..N {
            assert_eq!(a.try_recv().unwrap(), id);
        }
        for id in 0..N {
            // stream b views slots whose payload stream a already destroyed
            assert_eq!(b.try_recv().unwrap(), id);
        }
        drop(tx);
        drop(a);
        drop(b);
    }

    let counts: Vec<usize> = drops.iter().map(|d| d.load(Ordering::SeqCst)).collect();
    println!("drop counts per payload: {:?}", counts);
    for (id, c) in counts.iter().enumerate() {
        assert_eq!(*c, 1, "payload {} was dropped {} times (all: {:?})", id, c, counts);
    }
}
