// C06: on a shared broadcast stream try_recv pins the slot (refcount +1),
// runs T::clone(), and unpins it afterwards.  If T::clone() unwinds, the pin
// is never released (no guard): every later send that wraps around to that
// slot is refused with Full for the rest of the queue's life, although no
// thread is inside the queue and nothing is outstanding.
extern crate multiqueue2 as multiqueue;

use std::panic::{catch_unwind, AssertUnwindSafe};
use std::sync::atomic::{AtomicBool, Ordering};
use std::sync::mpsc::TrySendError;

static PANIC_ONCE: AtomicBool = AtomicBool::new(true);

struct Payload(u32);

impl Clone for Payload {
    fn clone(&self) -> Payload {
        if PANIC_ONCE.swap(false, Ordering::SeqCst) {
            panic!("clone failed (e.g. allocation failure, poisoned lock, ...)");
        }
        Payload(self.0)
    }
}

#[test]
fn unwinding_clone_leaves_the_slot_pinned_for_ever() {
    let (tx, rx) = multiqueue::broadcast_queue::<Payload>(1);
    let rx2 = rx.clone(); // two consumers on the stream -> refcount protocol in use

    assert!(tx.try_send(Payload(7)).is_ok());

    let r = catch_unwind(AssertUnwindSafe(|| rx.try_recv().map(|p| p.0)));
    assert!(r.is_err(), "first clone panics");

    // the value is still there and is delivered normally now
    assert_eq!(rx2.try_recv().map(|p| p.0).ok(), Some(7));
    assert!(rx.try_recv().is_err());
    assert!(rx2.try_recv().is_err());

    // quiescent: no thread inside the queue, 0 of N=1 values outstanding
    let mut refused = 0;
    for _ in 0..1000 {
        match tx.try_send(Payload(8)) {
            Ok(()) => break,
            Err(TrySendError::Full(_)) => refused += 1,
            Err(TrySendError::Disconnected(_)) => panic!("disconnected?"),
        }
    }
    assert_eq!(
        refused, 0,
        "empty quiescent queue refused {} sends with Full",
        refused
    );
}
