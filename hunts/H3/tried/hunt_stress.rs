extern crate multiqueue2 as mq;

use mq::wait::*;
use std::collections::HashSet;
use std::sync::mpsc;
use std::sync::{Arc, Barrier, Mutex};
use std::thread;
use std::time::Duration;

#[derive(Clone, Copy, Debug)]
enum Mode {
    Recv,
    Iter,
    View,
    TryLoop,
}

fn run_one<W: Wait + Send + 'static>(
    wait: W,
    cap: u64,
    producers: usize,
    per: usize,
    streams: &[(usize, Mode, usize)], // (consumers, mode, leavers after one value)
    label: String,
) {
    let (tx_done, rx_done) = mpsc::channel::<()>();
    let lab2 = label.clone();
    let streams: Vec<_> = streams.to_vec();
    let h = thread::spawn(move || {
        let (w, r) = mq::broadcast_queue_with::<usize, W>(cap, wait);
        let nthreads = producers + streams.iter().map(|s| s.0 + s.2).sum::<usize>();
        let bar = Arc::new(Barrier::new(nthreads));
        let mut hs = vec![];
        let mut results: Vec<Arc<Mutex<Vec<usize>>>> = vec![];
        for (nc, mode, leavers) in streams.iter().cloned() {
            let res = Arc::new(Mutex::new(Vec::new()));
            results.push(res.clone());
            let s = r.add_stream();
            let mut handles = vec![];
            for _ in 0..(nc + leavers - 1) {
                handles.push(s.clone());
            }
            handles.push(s);
            for (i, hnd) in handles.into_iter().enumerate() {
                let bar = bar.clone();
                let res = res.clone();
                let leaver = i < leavers;
                hs.push(thread::spawn(move || {
                    bar.wait();
                    let mut got = vec![];
                    if leaver {
                        if let Ok(v) = hnd.recv() {
                            got.push(v);
                        }
                        drop(hnd);
                    } else {
                        match mode {
                            Mode::Recv => {
                                while let Ok(v) = hnd.recv() {
                                    got.push(v);
                                }
                                // end is sticky
                                for _ in 0..3 {
                                    assert!(hnd.recv().is_err());
                                    assert_eq!(
                                        hnd.try_recv(),
                                        Err(mpsc::TryRecvError::Disconnected)
                                    );
                                }
                            }
                            Mode::Iter => {
                                for v in hnd {
                                    got.push(v);
                                }
                            }
                            Mode::View => {
                                // only valid if sole consumer
                                let u = hnd.into_single().unwrap();
                                loop {
                                    match u.recv_view(|x| *x) {
                                        Ok(v) => got.push(v),
                                        Err(_) => break,
                                    }
                                }
                                assert!(u.try_recv_view(|x| *x).is_err());
                            }
                            Mode::TryLoop => loop {
                                match hnd.try_recv() {
                                    Ok(v) => got.push(v),
                                    Err(mpsc::TryRecvError::Disconnected) => break,
                                    Err(_) => thread::yield_now(),
                                }
                            },
                        }
                    }
                    res.lock().unwrap().extend(got);
                }));
            }
        }
        r.unsubscribe();
        for p in 0..producers {
            let w2 = w.clone();
            let bar = bar.clone();
            hs.push(thread::spawn(move || {
                bar.wait();
                for i in 0..per {
                    let v = p * 1_000_000 + i;
                    loop {
                        match w2.try_send(v) {
                            Ok(_) => break,
                            Err(mpsc::TrySendError::Full(_)) => thread::yield_now(),
                            Err(e) => panic!("send err {:?}", e),
                        }
                    }
                }
            }));
        }
        drop(w);
        for h in hs {
            h.join().unwrap();
        }
        for (si, res) in results.iter().enumerate() {
            let v = res.lock().unwrap();
            let set: HashSet<usize> = v.iter().cloned().collect();
            assert_eq!(set.len(), v.len(), "{} dup in stream {}", lab2, si);
            assert_eq!(
                v.len(),
                producers * per,
                "{} stream {} lost values",
                lab2,
                si
            );
        }
        tx_done.send(()).unwrap();
    });
    match rx_done.recv_timeout(Duration::from_secs(30)) {
        Ok(_) => {
            h.join().unwrap();
        }
        Err(_) => {
            if h.is_finished() {
                h.join().unwrap();
            }
            panic!("HANG or failure in {}", label);
        }
    }
}

fn configs<W: Wait + Send + 'static, F: Fn() -> W>(mk: F, wname: &str) {
    let stream_sets: Vec<Vec<(usize, Mode, usize)>> = vec![
        vec![(1, Mode::Recv, 0)],
        vec![(1, Mode::View, 0)],
        vec![(2, Mode::Recv, 0)],
        vec![(3, Mode::Iter, 0)],
        vec![(1, Mode::Recv, 1)],
        vec![(1, Mode::Iter, 2)],
        vec![(2, Mode::Recv, 1)],
        vec![(1, Mode::Recv, 0), (1, Mode::View, 0), (1, Mode::Iter, 0)],
        vec![(2, Mode::Recv, 1), (1, Mode::View, 0)],
        vec![(1, Mode::TryLoop, 1), (2, Mode::Iter, 0)],
        vec![(2, Mode::TryLoop, 0), (1, Mode::Recv, 1)],
    ];
    for round in 0..3 {
        for cap in [1u64, 2, 4] {
            for producers in [1usize, 2] {
                for (i, ss) in stream_sets.iter().enumerate() {
                    let label = format!(
                        "{} cap={} prod={} set={} round={}",
                        wname, cap, producers, i, round
                    );
                    run_one(mk(), cap, producers, 300, ss, label);
                }
            }
        }
    }
}

#[test]
fn busy() {
    configs(|| BusyWait::new(), "busy");
}
#[test]
fn yielding() {
    configs(|| YieldingWait::new(), "yield");
}
#[test]
fn yielding0() {
    configs(|| YieldingWait::with_spins(0, 0), "yield0");
}
#[test]
fn blocking() {
    configs(|| BlockingWait::new(), "block");
}
#[test]
fn blocking0() {
    configs(|| BlockingWait::with_spins(0, 0), "block0");
}
