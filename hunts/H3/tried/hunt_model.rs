extern crate multiqueue2 as mq;

use mq::wait::*;
use std::sync::mpsc::{TryRecvError, TrySendError};

struct Rng(u64);
impl Rng {
    fn next(&mut self) -> u64 {
        self.0 ^= self.0 << 13;
        self.0 ^= self.0 >> 7;
        self.0 ^= self.0 << 17;
        self.0
    }
    fn below(&mut self, n: usize) -> usize {
        (self.next() % n as u64) as usize
    }
}

enum H {
    M(mq::BroadcastReceiver<u64>),
    U(mq::BroadcastUniReceiver<u64>),
}

struct Handle {
    h: Option<H>,
    stream: usize,
}

fn run(seed: u64, cap_req: u64, steps: usize) {
    let cap = if cap_req == 0 { 1 } else { cap_req.next_power_of_two() } as usize;
    let mut rng = Rng(seed * 2654435761 + 88172645463325252);
    let (w, r) = mq::broadcast_queue_with::<u64, BusyWait>(cap_req, BusyWait::new());
    let mut senders = vec![w];
    let mut log: Vec<u64> = vec![]; // accepted values
    let mut pos: Vec<Option<usize>> = vec![Some(0)]; // per stream position (None = dead)
    let mut cnt: Vec<usize> = vec![1];
    let mut handles = vec![Handle { h: Some(H::M(r)), stream: 0 }];
    let mut next_val = 0u64;
    let mut trace: Vec<String> = vec![];
    macro_rules! fail {
        ($($a:tt)*) => {{
            let n = trace.len();
            for t in &trace[n.saturating_sub(40)..] { eprintln!("{}", t); }
            panic!("seed {} cap {}: {}", seed, cap_req, format!($($a)*));
        }};
    }
    for _step in 0..steps {
        let op = rng.below(100);
        if op < 30 {
            // send
            if senders.is_empty() {
                continue;
            }
            let i = rng.below(senders.len());
            let minpos = pos.iter().filter_map(|p| *p).min().unwrap();
            let expect_full = log.len() - minpos >= cap;
            let v = next_val;
            match senders[i].try_send(v) {
                Ok(()) => {
                    trace.push(format!("send[{}] {} ok", i, v));
                    if expect_full {
                        fail!("send accepted while full");
                    }
                    log.push(v);
                    next_val += 1;
                }
                Err(TrySendError::Full(_)) => {
                    trace.push(format!("send[{}] full", i));
                    if !expect_full {
                        fail!("spurious full head={} minpos={}", log.len(), minpos);
                    }
                }
                Err(TrySendError::Disconnected(_)) => fail!("send disconnected"),
            }
        } else if op < 35 {
            if senders.is_empty() {
                continue;
            }
            let i = rng.below(senders.len());
            let c = senders[i].clone();
            senders.push(c);
            trace.push(format!("clone sender {}", i));
        } else if op < 40 {
            if senders.is_empty() {
                continue;
            }
            // keep senders most of the time
            if senders.len() == 1 && rng.below(4) != 0 {
                continue;
            }
            let i = rng.below(senders.len());
            senders.swap_remove(i);
            trace.push(format!("drop sender {} (left {})", i, senders.len()));
        } else if op < 75 {
            // recv on a handle
            let i = rng.below(handles.len());
            let s = handles[i].stream;
            let p = pos[s].unwrap();
            let view = rng.below(2) == 0;
            let res: Result<u64, TryRecvError> = match handles[i].h.as_ref().unwrap() {
                H::M(r) => r.try_recv(),
                H::U(u) => {
                    if view {
                        u.try_recv_view(|x| *x).map_err(|e| e.1)
                    } else {
                        u.try_recv()
                    }
                }
            };
            trace.push(format!("recv h{} s{} p{} -> {:?}", i, s, p, res));
            if p < log.len() {
                if res != Ok(log[p]) {
                    fail!("expected {} got {:?}", log[p], res);
                }
                pos[s] = Some(p + 1);
            } else if senders.is_empty() {
                if res != Err(TryRecvError::Disconnected) {
                    fail!("expected Disconnected got {:?}", res);
                }
            } else if res != Err(TryRecvError::Empty) {
                fail!("expected Empty got {:?}", res);
            }
        } else if op < 80 {
            // clone handle (multi only)
            let i = rng.below(handles.len());
            let s = handles[i].stream;
            if let H::M(r) = handles[i].h.as_ref().unwrap() {
                let c = r.clone();
                cnt[s] += 1;
                handles.push(Handle { h: Some(H::M(c)), stream: s });
                trace.push(format!("clone h{} s{}", i, s));
            }
        } else if op < 86 {
            // add_stream
            let i = rng.below(handles.len());
            let s = handles[i].stream;
            if let H::M(r) = handles[i].h.as_ref().unwrap() {
                let c = r.add_stream();
                pos.push(pos[s]);
                cnt.push(1);
                handles.push(Handle { h: Some(H::M(c)), stream: pos.len() - 1 });
                trace.push(format!("add_stream from h{} s{} -> s{}", i, s, pos.len() - 1));
            }
        } else if op < 92 {
            // drop / unsubscribe handle, keep one
            if handles.len() == 1 {
                continue;
            }
            let i = rng.below(handles.len());
            let hd = handles.swap_remove(i);
            let s = hd.stream;
            cnt[s] -= 1;
            let last = cnt[s] == 0;
            if last {
                pos[s] = None;
            }
            match hd.h.unwrap() {
                H::M(r) => {
                    if rng.below(2) == 0 {
                        let b = r.unsubscribe();
                        if b != last {
                            fail!("unsubscribe returned {} expected {}", b, last);
                        }
                    } else {
                        drop(r);
                    }
                }
                H::U(u) => u.unsubscribe(),
            }
            trace.push(format!("drop h{} s{} last={}", i, s, last));
        } else {
            // into_single / into_multi
            let i = rng.below(handles.len());
            let s = handles[i].stream;
            let h = handles[i].h.take().unwrap();
            let nh = match h {
                H::M(r) => match r.into_single() {
                    Ok(u) => {
                        if cnt[s] != 1 {
                            fail!("into_single ok with {} handles", cnt[s]);
                        }
                        trace.push(format!("into_single h{} ok", i));
                        H::U(u)
                    }
                    Err(r) => {
                        if cnt[s] == 1 {
                            fail!("into_single failed with 1 handle");
                        }
                        H::M(r)
                    }
                },
                H::U(u) => {
                    trace.push(format!("into_multi h{}", i));
                    H::M(u.into_multi())
                }
            };
            handles[i].h = Some(nh);
        }
    }
    // final: drop all senders, drain every stream, check end
    senders.clear();
    for hd in &handles {
        let s = hd.stream;
        loop {
            let p = pos[s].unwrap();
            let res = match hd.h.as_ref().unwrap() {
                H::M(r) => r.try_recv(),
                H::U(u) => u.try_recv(),
            };
            if p < log.len() {
                if res != Ok(log[p]) {
                    fail!("final: expected {} got {:?}", log[p], res);
                }
                pos[s] = Some(p + 1);
            } else {
                if res != Err(TryRecvError::Disconnected) {
                    fail!("final: expected Disconnected got {:?}", res);
                }
                break;
            }
        }
    }
}

#[test]
fn model() {
    for cap in [0u64, 1, 2, 3, 4, 5, 8] {
        for seed in 1..400u64 {
            run(seed, cap, 600);
        }
    }
}
