extern crate futures;
extern crate multiqueue2 as mq;

use futures::{Future, Sink, Stream};
use std::collections::HashSet;
use std::sync::mpsc;
use std::sync::{Arc, Barrier, Mutex};
use std::thread;
use std::time::Duration;

fn idf(x: &usize) -> usize { *x }

fn with_timeout<F: FnOnce() + Send + 'static>(label: String, f: F) {
    let (tx_done, rx_done) = mpsc::channel::<()>();
    let h = thread::spawn(move || {
        f();
        tx_done.send(()).unwrap();
    });
    match rx_done.recv_timeout(Duration::from_secs(30)) {
        Ok(_) => h.join().unwrap(),
        Err(_) => {
            if h.is_finished() {
                h.join().unwrap();
            }
            panic!("HANG or failure in {}", label);
        }
    }
}

// kind: 0 = multi stream wait(), 1 = uni stream wait(), 2 = uni with transform/into_multi churn,
// 3 = direct recv(), 4 = uni direct recv
fn run(cap: u64, spins: Option<(usize, usize)>, producers: usize, per: usize, streams: Vec<(usize, u8)>, label: String) {
    let lab = label.clone();
    with_timeout(label, move || {
        let (w, r) = match spins {
            None => mq::broadcast_fut_queue::<usize>(cap),
            Some((a, b)) => mq::broadcast_fut_queue_with::<usize>(cap, a, b),
        };
        let nthreads = producers + streams.iter().map(|s| s.0).sum::<usize>();
        let bar = Arc::new(Barrier::new(nthreads));
        let mut hs = vec![];
        let mut results = vec![];
        for (nc, kind) in streams.iter().cloned() {
            let res = Arc::new(Mutex::new(Vec::new()));
            results.push(res.clone());
            let s = r.add_stream();
            let mut handles = vec![];
            for _ in 0..nc - 1 {
                handles.push(s.clone());
            }
            handles.push(s);
            for hnd in handles {
                let bar = bar.clone();
                let res = res.clone();
                hs.push(thread::spawn(move || {
                    bar.wait();
                    let mut got = vec![];
                    match kind {
                        0 => {
                            for v in hnd.wait() {
                                got.push(v.unwrap());
                            }
                        }
                        1 => {
                            let u = hnd.into_single((idf as fn(&usize) -> usize)).ok().unwrap();
                            for v in u.wait() {
                                got.push(v.unwrap());
                            }
                        }
                        2 => {
                            let mut u = hnd.into_single((idf as fn(&usize) -> usize)).ok().unwrap();
                            let mut n = 0;
                            loop {
                                match u.recv() {
                                    Ok(v) => got.push(v),
                                    Err(_) => break,
                                }
                                n += 1;
                                if n % 7 == 0 {
                                    u = u.transform_operation((idf as fn(&usize) -> usize));
                                }
                                if n % 11 == 0 {
                                    let m = u.into_multi();
                                    match m.try_recv() {
                                        Ok(v) => got.push(v),
                                        Err(_) => {}
                                    }
                                    u = m.into_single((idf as fn(&usize) -> usize)).ok().unwrap();
                                }
                            }
                            assert!(u.try_recv().is_err());
                        }
                        3 => {
                            while let Ok(v) = hnd.recv() {
                                got.push(v);
                            }
                            assert_eq!(hnd.try_recv(), Err(mpsc::TryRecvError::Disconnected));
                        }
                        _ => {
                            let mut u = hnd.into_single((idf as fn(&usize) -> usize)).ok().unwrap();
                            while let Ok(v) = u.recv() {
                                got.push(v);
                            }
                        }
                    }
                    res.lock().unwrap().extend(got);
                }));
            }
        }
        r.unsubscribe();
        for p in 0..producers {
            let mut w2 = w.clone();
            let bar = bar.clone();
            hs.push(thread::spawn(move || {
                bar.wait();
                for i in 0..per {
                    let v = p * 1_000_000 + i;
                    w2 = w2.send(v).wait().unwrap();
                }
            }));
        }
        drop(w);
        for h in hs {
            h.join().unwrap();
        }
        for (si, res) in results.iter().enumerate() {
            let v = res.lock().unwrap();
            let set: HashSet<usize> = v.iter().cloned().collect();
            assert_eq!(set.len(), v.len(), "{} dup in stream {}", lab, si);
            assert_eq!(v.len(), producers * per, "{} stream {} lost values", lab, si);
        }
    });
}

#[test]
fn fut_all() {
    let sets: Vec<Vec<(usize, u8)>> = vec![
        vec![(1, 0)],
        vec![(2, 0)],
        vec![(3, 0)],
        vec![(1, 1)],
        vec![(1, 2)],
        vec![(1, 3), (1, 4)],
        vec![(2, 3)],
        vec![(2, 0), (1, 1), (1, 2)],
        vec![(1, 0), (1, 2), (2, 3)],
    ];
    for round in 0..3 {
        for spins in [None, Some((0, 0)), Some((1, 0))] {
            for cap in [1u64, 2, 4] {
                for producers in [1usize, 2] {
                    for (i, ss) in sets.iter().enumerate() {
                        let label = format!(
                            "fut spins={:?} cap={} prod={} set={} round={}",
                            spins, cap, producers, i, round
                        );
                        run(cap, spins, producers, 200, ss.clone(), label);
                    }
                }
            }
        }
    }
}
