extern crate multiqueue2 as mq;
use mq::wait::*;
use std::sync::mpsc;
use std::sync::{Arc, Barrier, Mutex};
use std::thread;
use std::time::Duration;

fn run_one<W: Wait + Send + 'static>(wait: W, cap: u64, producers: usize, consumers: usize, leavers: usize, per: usize, label: String) {
    let (tx_done, rx_done) = mpsc::channel::<()>();
    let lab = label.clone();
    let h = thread::spawn(move || {
        let (w, r) = mq::mpmc_queue_with::<Box<usize>, W>(cap, wait);
        let bar = Arc::new(Barrier::new(producers + consumers + leavers));
        let res = Arc::new(Mutex::new(Vec::new()));
        let mut hs = vec![];
        for i in 0..consumers + leavers {
            let hnd = r.clone();
            let bar = bar.clone();
            let res = res.clone();
            hs.push(thread::spawn(move || {
                bar.wait();
                let mut got = vec![];
                if i < leavers {
                    if let Ok(v) = hnd.recv() { got.push(*v); }
                    drop(hnd);
                } else if i % 2 == 0 {
                    while let Ok(v) = hnd.recv() { got.push(*v); }
                    assert!(hnd.recv().is_err());
                    assert!(hnd.try_recv() == Err(mpsc::TryRecvError::Disconnected));
                } else {
                    for v in hnd { got.push(*v); }
                }
                res.lock().unwrap().extend(got);
            }));
        }
        drop(r);
        for p in 0..producers {
            let w2 = w.clone();
            let bar = bar.clone();
            hs.push(thread::spawn(move || {
                bar.wait();
                for i in 0..per {
                    let mut v = Box::new(p * 1_000_000 + i);
                    loop {
                        match w2.try_send(v) {
                            Ok(_) => break,
                            Err(mpsc::TrySendError::Full(b)) => { v = b; thread::yield_now() }
                            Err(_) => panic!("send err"),
                        }
                    }
                }
            }));
        }
        drop(w);
        for h in hs { h.join().unwrap(); }
        let mut v = res.lock().unwrap().clone();
        v.sort();
        assert_eq!(v.len(), producers * per, "{} lost", lab);
        v.dedup();
        assert_eq!(v.len(), producers * per, "{} dup", lab);
        tx_done.send(()).unwrap();
    });
    match rx_done.recv_timeout(Duration::from_secs(30)) {
        Ok(_) => h.join().unwrap(),
        Err(_) => { if h.is_finished() { h.join().unwrap(); } panic!("HANG or failure in {}", label); }
    }
}

fn configs<W: Wait + Send + 'static, F: Fn() -> W>(mk: F, wname: &str) {
    for round in 0..10 {
        for cap in [1u64, 2, 4] {
            for producers in [1usize, 2] {
                for (c, l) in [(1, 0), (2, 0), (3, 0), (1, 1), (1, 2), (2, 1)] {
                    let label = format!("{} cap={} prod={} c={} l={} round={}", wname, cap, producers, c, l, round);
                    run_one(mk(), cap, producers, c, l, 500, label);
                }
            }
        }
    }
}
#[test] fn busy() { configs(|| BusyWait::new(), "busy"); }
#[test] fn yielding0() { configs(|| YieldingWait::with_spins(0, 0), "yield0"); }
#[test] fn blocking() { configs(|| BlockingWait::new(), "block"); }
#[test] fn blocking0() { configs(|| BlockingWait::with_spins(0, 0), "block0"); }
