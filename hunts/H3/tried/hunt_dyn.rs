extern crate multiqueue2 as mq;

use mq::wait::*;
use std::sync::atomic::{AtomicBool, AtomicUsize, Ordering};
use std::sync::mpsc;
use std::sync::Arc;
use std::thread;
use std::time::Duration;

fn check_seq(got: &[usize], producers: usize, per: usize, label: &str) {
    let mut last: Vec<Option<usize>> = vec![None; producers];
    for v in got {
        let p = v / 1_000_000;
        let i = v % 1_000_000;
        if let Some(l) = last[p] {
            assert_eq!(i, l + 1, "{}: gap/dup for producer {}: {} after {}", label, p, i, l);
        }
        last[p] = Some(i);
    }
    for p in 0..producers {
        if let Some(l) = last[p] {
            assert_eq!(l, per - 1, "{}: stream ended early for producer {} at {}", label, p, l);
        }
    }
}

fn run_one<W: Wait + Send + 'static>(wait: W, cap: u64, producers: usize, per: usize, label: String) {
    let (tx_done, rx_done) = mpsc::channel::<()>();
    let lab = label.clone();
    let h = thread::spawn(move || {
        let (w, r) = mq::broadcast_queue_with::<usize, W>(cap, wait);
        let stop = Arc::new(AtomicBool::new(false));
        let spawned = Arc::new(AtomicUsize::new(0));
        let mut hs = vec![];
        // shared stream: one active consumer, one spawner that also consumes sometimes
        let shared = r.add_stream();
        let active = shared.clone();
        let shared_got = Arc::new(std::sync::Mutex::new(Vec::new()));
        {
            let sg = shared_got.clone();
            hs.push(thread::spawn(move || {
                let mut got = vec![];
                while let Ok(v) = active.recv() {
                    got.push(v);
                }
                sg.lock().unwrap().extend(got);
            }));
        }
        {
            let sg = shared_got.clone();
            let stop = stop.clone();
            let spawned = spawned.clone();
            let lab = lab.clone();
            hs.push(thread::spawn(move || {
                let mut got = vec![];
                let mut kids = vec![];
                let mut n = 0;
                loop {
                    n += 1;
                    if n % 3 == 0 && kids.len() < 3 && !stop.load(Ordering::Relaxed) {
                        let ns = shared.add_stream();
                        spawned.fetch_add(1, Ordering::Relaxed);
                        let lab = lab.clone();
                        let leave_early = kids.len() % 3 == 2;
                        kids.push(thread::spawn(move || {
                            let mut got = vec![];
                            if leave_early {
                                for _ in 0..5 {
                                    if let Ok(v) = ns.recv() {
                                        got.push(v);
                                    }
                                }
                                ns.unsubscribe();
                                // only check contiguity
                                let mut last: Vec<Option<usize>> = vec![None; 4];
                                for v in got {
                                    let p = v / 1_000_000;
                                    let i = v % 1_000_000;
                                    if let Some(l) = last[p] {
                                        assert_eq!(i, l + 1, "{}: leaver gap", lab);
                                    }
                                    last[p] = Some(i);
                                }
                            } else {
                                while let Ok(v) = ns.recv() {
                                    got.push(v);
                                }
                                assert!(ns.recv().is_err());
                                check_seq(&got, producers, per, &lab);
                            }
                        }));
                    }
                    match shared.try_recv() {
                        Ok(v) => got.push(v),
                        Err(mpsc::TryRecvError::Disconnected) => break,
                        Err(_) => thread::yield_now(),
                    }
                }
                sg.lock().unwrap().extend(got);
                for k in kids {
                    k.join().unwrap();
                }
            }));
        }
        r.unsubscribe();
        let mut ps = vec![];
        for p in 0..producers {
            let w2 = w.clone();
            ps.push(thread::spawn(move || {
                let mut w2 = w2;
                for i in 0..per {
                    let v = p * 1_000_000 + i;
                    if i % 50 == 17 {
                        // churn sender handles
                        let w3 = w2.clone();
                        drop(w2);
                        w2 = w3;
                    }
                    loop {
                        match w2.try_send(v) {
                            Ok(_) => break,
                            Err(mpsc::TrySendError::Full(_)) => thread::yield_now(),
                            Err(e) => panic!("send err {:?}", e),
                        }
                    }
                }
            }));
        }
        drop(w);
        for p in ps {
            p.join().unwrap();
        }
        stop.store(true, Ordering::Relaxed);
        for h in hs {
            h.join().unwrap();
        }
        let mut v = shared_got.lock().unwrap().clone();
        v.sort();
        assert_eq!(v.len(), producers * per, "{} shared stream lost", lab);
        v.dedup();
        assert_eq!(v.len(), producers * per, "{} shared stream dup", lab);
        tx_done.send(()).unwrap();
    });
    match rx_done.recv_timeout(Duration::from_secs(30)) {
        Ok(_) => h.join().unwrap(),
        Err(_) => {
            if h.is_finished() {
                h.join().unwrap();
            }
            panic!("HANG or failure in {}", label);
        }
    }
}

fn configs<W: Wait + Send + 'static, F: Fn() -> W>(mk: F, wname: &str) {
    for round in 0..25 {
        for cap in [1u64, 2, 4] {
            for producers in [1usize, 2] {
                let label = format!("{} cap={} prod={} round={}", wname, cap, producers, round);
                run_one(mk(), cap, producers, 400, label);
            }
        }
    }
}

#[test]
fn busy() {
    configs(|| BusyWait::new(), "busy");
}
#[test]
fn yielding0() {
    configs(|| YieldingWait::with_spins(0, 0), "yield0");
}
#[test]
fn blocking() {
    configs(|| BlockingWait::new(), "block");
}
#[test]
fn blocking0() {
    configs(|| BlockingWait::with_spins(0, 0), "block0");
}
