// SIDE FINDING (outside C07/C08/C18): memory safety of MPMCFutUniReceiver::add_stream_with.
// An MPMC queue moves values out of (or drops them in) the slot, which is only sound with a
// single stream; add_stream_with nevertheless subscribes a second stream to the same queue.
extern crate multiqueue2 as mq;
use std::sync::Arc;
type Op = fn(&Arc<u32>) -> usize;
fn cnt(x: &Arc<u32>) -> usize {
    Arc::strong_count(x)
}
#[test]
fn mpmc_two_streams_double_drop() {
    let (w, r) = mq::mpmc_fut_queue::<Arc<u32>>(4);
    let mut u = r.into_single(cnt as Op).ok().unwrap();
    let mut u2 = u.add_stream_with(cnt as Op);
    let a = Arc::new(7);
    w.try_send(a.clone()).unwrap();
    assert_eq!(Arc::strong_count(&a), 2);
    assert_eq!(u.try_recv(), Ok(2)); // stream 1 views the value, the queue then drops it in place
    assert_eq!(Arc::strong_count(&a), 1);
    let seen = u2.try_recv(); // stream 2 views the already dropped slot and drops it again
    let after = Arc::strong_count(&a);
    std::mem::forget(a); // the allocation was freed behind our back; do not touch it again
    std::mem::forget(w);
    std::mem::forget(u);
    std::mem::forget(u2);
    assert!(
        after == 1,
        "our Arc was released by the queue a second time: stream 2 saw {:?}, strong count now {}",
        seen,
        after
    );
}
