extern crate futures;
extern crate multiqueue2 as mq;

use futures::{Future, Sink, Stream};
use std::sync::atomic::{AtomicUsize, Ordering};
use std::sync::mpsc::channel;
use std::sync::Arc;
use std::thread;
use std::time::Duration;

fn rng(seed: &mut u64) -> u64 {
    *seed ^= *seed << 13;
    *seed ^= *seed >> 7;
    *seed ^= *seed << 17;
    *seed
}

fn watchdog<F: FnOnce() + Send + 'static>(name: &str, secs: u64, f: F) {
    let (tx, rx) = channel();
    let h = thread::spawn(move || {
        f();
        let _ = tx.send(());
    });
    match rx.recv_timeout(Duration::from_secs(secs)) {
        Ok(()) => {
            h.join().unwrap();
        }
        Err(std::sync::mpsc::RecvTimeoutError::Disconnected) => {
            h.join().unwrap();
        }
        Err(_) => panic!("HANG in {}", name),
    }
}

// broadcast futures: a stream whose handle keeps changing shape (into_single, transform_operation,
// into_multi, add_stream + drop of the parent) must still see every value in order; Sink senders
// parked on a tiny queue must finish.
#[test]
fn fut_shape_shifting_stream() {
    for round in 0..1500u64 {
        let name = format!("fut_shape_shifting_stream round {}", round);
        watchdog(&name, 120, move || {
            let mut seed = 0x9E3779B97F4A7C15u64 ^ (round * 7919 + 1);
            rng(&mut seed);
            let cap = [1u64, 2, 4][(rng(&mut seed) % 3) as usize];
            let (tx, rx) = mq::broadcast_fut_queue_with::<u64>(cap, 0, 0);
            let per = 120u64;
            let nsend = 1 + rng(&mut seed) % 2;
            let mut shs = vec![];
            for p in 0..nsend {
                let mut t = tx.clone();
                shs.push(thread::spawn(move || {
                    for i in 0..per {
                        t = t.send(p * 1000 + i).wait().expect("receiver alive");
                    }
                }));
            }
            drop(tx);
            // second plain stream that leaves early
            let other = rx.add_stream();
            let k = rng(&mut seed) % 40;
            let oh = thread::spawn(move || {
                let mut it = other.wait();
                for _ in 0..k {
                    if it.next().is_none() {
                        break;
                    }
                }
            });
            let mut s2 = seed;
            let ch = thread::spawn(move || {
                let mut next = vec![0u64; nsend as usize];
                let mut check = |v: u64| {
                    let p = (v / 1000) as usize;
                    assert_eq!(next[p], v % 1000, "lost or reordered");
                    next[p] += 1;
                };
                let mut r = rx;
                let mut done = false;
                while !done {
                    match rng(&mut s2) % 4 {
                        0 => {
                            // consume a few as multi stream
                            let n = rng(&mut s2) % 5;
                            let mut it = r.wait();
                            for _ in 0..n {
                                match it.next() {
                                    Some(Ok(v)) => check(v),
                                    _ => {
                                        done = true;
                                        break;
                                    }
                                }
                            }
                            r = it.into_inner();
                        }
                        1 => {
                            // into_single, consume, transform, into_multi
                            let s = match r.into_single(|x: &u64| *x) {
                                Ok(s) => s,
                                Err(_) => panic!("sole handle"),
                            };
                            let n = rng(&mut s2) % 5;
                            let mut it = s.wait();
                            for _ in 0..n {
                                match it.next() {
                                    Some(Ok(v)) => check(v),
                                    _ => {
                                        done = true;
                                        break;
                                    }
                                }
                            }
                            let s = it.into_inner();
                            let s = s.transform_operation(|x: &u64| *x + 0);
                            let mut it = s.wait();
                            for _ in 0..n {
                                match it.next() {
                                    Some(Ok(v)) => check(v),
                                    _ => {
                                        done = true;
                                        break;
                                    }
                                }
                            }
                            r = it.into_inner().into_multi();
                        }
                        2 => {
                            // replace by an added stream
                            let n = r.add_stream();
                            if rng(&mut s2) % 2 == 0 {
                                r.unsubscribe();
                            } else {
                                drop(r);
                            }
                            r = n;
                        }
                        _ => {
                            // clone, drop the original
                            let n = r.clone();
                            assert!(!r.unsubscribe());
                            r = n;
                        }
                    }
                }
                for n in next {
                    assert_eq!(n, per, "values lost at the end");
                }
            });
            for h in shs {
                h.join().unwrap();
            }
            oh.join().unwrap();
            ch.join().unwrap();
        });
    }
}

// mpmc futures: shared consumers as tasks, some leave; Sink senders; every value delivered exactly once
#[test]
fn mpmc_fut_shared_consumers_leave() {
    for round in 0..1500u64 {
        let name = format!("mpmc_fut_shared_consumers_leave round {}", round);
        watchdog(&name, 120, move || {
            let mut seed = 0xD1B54A32D192ED03u64 ^ (round * 104729 + 3);
            rng(&mut seed);
            let cap = [1u64, 2, 4][(rng(&mut seed) % 3) as usize];
            let (tx, rx) = mq::mpmc_fut_queue::<u64>(cap);
            let per = 100u64;
            let nsend = 1 + rng(&mut seed) % 2;
            let mut shs = vec![];
            for p in 0..nsend {
                let mut t = tx.clone();
                shs.push(thread::spawn(move || {
                    for i in 0..per {
                        t = t.send(p * 1000 + i).wait().expect("receiver alive");
                    }
                }));
            }
            drop(tx);
            let sum = Arc::new(AtomicUsize::new(0));
            let cnt = Arc::new(AtomicUsize::new(0));
            let mut chs = vec![];
            let nleavers = rng(&mut seed) % 3;
            for _ in 0..nleavers {
                let r = rx.clone();
                let k = rng(&mut seed) % 30;
                let (sum, cnt) = (sum.clone(), cnt.clone());
                chs.push(thread::spawn(move || {
                    let mut it = r.wait();
                    for _ in 0..k {
                        match it.next() {
                            Some(Ok(v)) => {
                                sum.fetch_add(v as usize, Ordering::SeqCst);
                                cnt.fetch_add(1, Ordering::SeqCst);
                            }
                            _ => break,
                        }
                    }
                }));
            }
            {
                let (sum, cnt) = (sum.clone(), cnt.clone());
                chs.push(thread::spawn(move || {
                    for v in rx.wait() {
                        let v = v.unwrap();
                        sum.fetch_add(v as usize, Ordering::SeqCst);
                        cnt.fetch_add(1, Ordering::SeqCst);
                    }
                }));
            }
            for h in shs {
                h.join().unwrap();
            }
            for h in chs {
                h.join().unwrap();
            }
            assert_eq!(cnt.load(Ordering::SeqCst) as u64, per * nsend);
            let mut expect = 0u64;
            for p in 0..nsend {
                for i in 0..per {
                    expect += p * 1000 + i;
                }
            }
            assert_eq!(sum.load(Ordering::SeqCst) as u64, expect);
        });
    }
}
