extern crate futures;
extern crate multiqueue2 as mq;

use futures::{Future, Sink, Stream};
use std::sync::atomic::{AtomicUsize, Ordering};
use std::sync::mpsc::{channel, TryRecvError, TrySendError};
use std::sync::Arc;
use std::thread;
use std::time::{Duration, Instant};

fn rng(seed: &mut u64) -> u64 {
    *seed ^= *seed << 13;
    *seed ^= *seed >> 7;
    *seed ^= *seed << 17;
    *seed
}

fn watchdog<F: FnOnce() + Send + 'static>(name: &str, secs: u64, f: F) {
    let (tx, rx) = channel();
    let h = thread::spawn(move || {
        f();
        let _ = tx.send(());
    });
    match rx.recv_timeout(Duration::from_secs(secs)) {
        Ok(()) => {
            h.join().unwrap();
        }
        Err(std::sync::mpsc::RecvTimeoutError::Disconnected) => {
            h.join().unwrap();
        }
        Err(_) => panic!("HANG in {}", name),
    }
}

// futures: senders using Sink::send().wait(), receivers leave at random points
#[test]
fn fut_sink_receivers_leave() {
    for round in 0..3000u64 {
        for &bcast_streams in &[1usize, 2] {
            let name = format!("fut_sink_receivers_leave round {} streams {}", round, bcast_streams);
            watchdog(&name, 120, move || {
                let mut seed = 0x9E3779B97F4A7C15u64 ^ (round * 7919 + bcast_streams as u64);
                let cap = [1u64, 2, 4][(rng(&mut seed) % 3) as usize];
                let (tx, rx) = mq::broadcast_fut_queue_with::<u64>(cap, 0, 0);
                let mut rxs = vec![];
                for s in 0..bcast_streams {
                    let r = if s == 0 { rx.clone() } else { rx.add_stream() };
                    if rng(&mut seed) % 2 == 0 {
                        rxs.push(r.clone());
                    }
                    rxs.push(r);
                }
                drop(rx);
                let mut hs = vec![];
                for r in rxs {
                    let k = rng(&mut seed) % 6;
                    hs.push(thread::spawn(move || {
                        let mut it = r.wait();
                        for _ in 0..k {
                            if it.next().is_none() {
                                break;
                            }
                        }
                    }));
                }
                let nsend = 1 + (rng(&mut seed) % 2) as usize;
                let mut shs = vec![];
                for _ in 0..nsend {
                    let mut t = tx.clone();
                    shs.push(thread::spawn(move || {
                        for i in 0..50u64 {
                            match t.send(i).wait() {
                                Ok(nt) => t = nt,
                                Err(_) => return,
                            }
                        }
                    }));
                }
                drop(tx);
                for h in shs {
                    h.join().unwrap();
                }
                for h in hs {
                    h.join().unwrap();
                }
            });
        }
    }
}

// blocking recv: consumers on shared/separate streams leave after one value; senders send then drop
#[test]
fn blocking_consumers_leave_after_one() {
    for round in 0..4000u64 {
        let name = format!("blocking_consumers_leave_after_one round {}", round);
        watchdog(&name, 120, move || {
            let mut seed = 0xD1B54A32D192ED03u64 ^ (round * 104729);
            let cap = [1u64, 2, 4][(rng(&mut seed) % 3) as usize];
            let (tx, rx) = mq::broadcast_queue_with::<u64, _>(cap, mq::wait::BlockingWait::with_spins(0, 0));
            let shared = rng(&mut seed) % 2 == 0;
            let ncons = 1 + (rng(&mut seed) % 3) as usize;
            let mut hs = vec![];
            let got = Arc::new(AtomicUsize::new(0));
            for _ in 0..ncons {
                let r = if shared { rx.clone() } else { rx.add_stream() };
                let got = got.clone();
                hs.push(thread::spawn(move || {
                    if r.recv().is_ok() {
                        got.fetch_add(1, Ordering::SeqCst);
                    }
                }));
            }
            drop(rx);
            let nvals = if shared { ncons } else { 1 };
            let t2 = tx.clone();
            let sender = thread::spawn(move || {
                for i in 0..nvals as u64 {
                    let start = Instant::now();
                    loop {
                        match t2.try_send(i) {
                            Ok(()) => break,
                            Err(TrySendError::Full(_)) => {
                                if start.elapsed() > Duration::from_secs(100) {
                                    panic!("sender stuck on Full");
                                }
                                thread::yield_now()
                            }
                            Err(TrySendError::Disconnected(_)) => return,
                        }
                    }
                }
            });
            drop(tx);
            sender.join().unwrap();
            for h in hs {
                h.join().unwrap();
            }
            assert_eq!(got.load(Ordering::SeqCst), ncons);
        });
    }
}

// broadcast: streams leave while producers retry on full; remaining stream must see everything in order
#[test]
fn bcast_streams_leave_rest_complete() {
    for round in 0..3000u64 {
        let name = format!("bcast_streams_leave_rest_complete round {}", round);
        watchdog(&name, 120, move || {
            let mut seed = 0xA0761D6478BD642Fu64 ^ (round * 15485863);
            let cap = [1u64, 2, 4][(rng(&mut seed) % 3) as usize];
            let (tx, rx) = mq::broadcast_queue_with::<(u64, u64), _>(cap, mq::wait::BlockingWait::with_spins(0, 0));
            let nprod = 1 + (rng(&mut seed) % 2);
            let per = 200u64;
            // keeper stream: single handle, receives everything
            let keeper = rx.add_stream();
            // shared keeper stream: two handles
            let sk1 = rx.add_stream();
            let sk2 = sk1.clone();
            let mut leavers = vec![];
            for _ in 0..(1 + rng(&mut seed) % 3) {
                let l = rx.add_stream();
                if rng(&mut seed) % 2 == 0 {
                    leavers.push((l.clone(), rng(&mut seed) % 300));
                }
                leavers.push((l, rng(&mut seed) % 300));
            }
            drop(rx);
            let mut hs = vec![];
            for (l, k) in leavers {
                hs.push(thread::spawn(move || {
                    for _ in 0..k {
                        if l.recv().is_err() {
                            break;
                        }
                    }
                    l.unsubscribe();
                }));
            }
            let kh = thread::spawn(move || {
                let mut next = vec![0u64; nprod as usize];
                for (p, i) in keeper {
                    assert_eq!(next[p as usize], i, "keeper out of order / lost");
                    next[p as usize] += 1;
                }
                for n in next {
                    assert_eq!(n, per, "keeper lost values");
                }
            });
            let total = Arc::new(AtomicUsize::new(0));
            let mut skh = vec![];
            for sk in vec![sk1, sk2] {
                let total = total.clone();
                skh.push(thread::spawn(move || {
                    let mut last = vec![-1i64; nprod as usize];
                    loop {
                        match sk.try_recv() {
                            Ok((p, i)) => {
                                assert!(last[p as usize] < i as i64, "shared keeper order");
                                last[p as usize] = i as i64;
                                total.fetch_add(1, Ordering::SeqCst);
                            }
                            Err(TryRecvError::Empty) => thread::yield_now(),
                            Err(TryRecvError::Disconnected) => {
                                // must stay disconnected
                                for _ in 0..3 {
                                    assert!(matches!(sk.try_recv(), Err(TryRecvError::Disconnected)));
                                }
                                break;
                            }
                        }
                    }
                }));
            }
            let mut ph = vec![];
            for p in 0..nprod {
                let t = tx.clone();
                ph.push(thread::spawn(move || {
                    for i in 0..per {
                        let start = Instant::now();
                        loop {
                            match t.try_send((p, i)) {
                                Ok(()) => break,
                                Err(TrySendError::Full(_)) => {
                                    if start.elapsed() > Duration::from_secs(100) {
                                        panic!("producer stuck on Full");
                                    }
                                    thread::yield_now()
                                }
                                Err(TrySendError::Disconnected(_)) => panic!("disconnected with keepers alive"),
                            }
                        }
                    }
                }));
            }
            drop(tx);
            for h in ph {
                h.join().unwrap();
            }
            for h in hs {
                h.join().unwrap();
            }
            kh.join().unwrap();
            for h in skh {
                h.join().unwrap();
            }
            assert_eq!(total.load(Ordering::SeqCst) as u64, per * nprod);
        });
    }
}
