extern crate multiqueue2 as mq;

use std::sync::mpsc::{TryRecvError, TrySendError};

fn rng(seed: &mut u64) -> u64 {
    *seed ^= *seed << 13;
    *seed ^= *seed >> 7;
    *seed ^= *seed << 17;
    *seed
}

enum H {
    M(mq::BroadcastReceiver<u64>),
    U(mq::BroadcastUniReceiver<u64>),
}

struct Handle {
    h: H,
    stream: usize,
}

#[test]
fn model_broadcast_sequential() {
    for round in 0..400000u64 {
        let mut seed = 0x2545F4914F6CDD1Du64 ^ (round.wrapping_mul(0x9E3779B97F4A7C15));
        rng(&mut seed);
        let cap_req = 1 + rng(&mut seed) % 4;
        let cap = cap_req.next_power_of_two() as usize;
        let (tx, rx) = mq::broadcast_queue::<u64>(cap_req);
        let mut senders = vec![tx];
        let mut handles = vec![Handle { h: H::M(rx), stream: 0 }];
        // model
        let mut log: Vec<u64> = vec![];
        let mut pos: Vec<Option<usize>> = vec![Some(0)]; // per stream position; None = removed
        let mut nh: Vec<usize> = vec![1]; // handles per stream
        let mut next_val = 0u64;
        let mut trace: Vec<String> = vec![];
        let steps = 5 + rng(&mut seed) % 150;
        for _ in 0..steps {
            let op = rng(&mut seed) % 100;
            if op < 35 {
                // send
                if senders.is_empty() {
                    continue;
                }
                let si = (rng(&mut seed) as usize) % senders.len();
                let live: Vec<usize> = pos.iter().filter_map(|p| *p).collect();
                let res = senders[si].try_send(next_val);
                trace.push(format!("send[{}] {} -> {:?}", si, next_val, res));
                if live.is_empty() {
                    match res {
                        Err(TrySendError::Disconnected(v)) => assert_eq!(v, next_val),
                        _ => panic!("round {} expected Disconnected: {:#?}", round, trace),
                    }
                } else {
                    let minp = *live.iter().min().unwrap();
                    if log.len() - minp < cap {
                        assert!(res.is_ok(), "round {} expected Ok: {:#?}", round, trace);
                        log.push(next_val);
                        next_val += 1;
                    } else {
                        match res {
                            Err(TrySendError::Full(v)) => assert_eq!(v, next_val),
                            _ => panic!("round {} expected Full: {:#?}", round, trace),
                        }
                    }
                }
            } else if op < 65 {
                // recv
                if handles.is_empty() {
                    continue;
                }
                let hi = (rng(&mut seed) as usize) % handles.len();
                let s = handles[hi].stream;
                let view = rng(&mut seed) % 2 == 0;
                let res = match &handles[hi].h {
                    H::M(r) => r.try_recv(),
                    H::U(r) => {
                        if view {
                            r.try_recv_view(|x| *x).map_err(|e| e.1)
                        } else {
                            r.try_recv()
                        }
                    }
                };
                trace.push(format!("recv[h{} s{}] -> {:?}", hi, s, res));
                let p = pos[s].unwrap();
                if p < log.len() {
                    assert_eq!(res, Ok(log[p]), "round {}: {:#?}", round, trace);
                    pos[s] = Some(p + 1);
                } else if senders.is_empty() {
                    assert_eq!(res, Err(TryRecvError::Disconnected), "round {}: {:#?}", round, trace);
                } else {
                    assert_eq!(res, Err(TryRecvError::Empty), "round {}: {:#?}", round, trace);
                }
            } else if op < 72 {
                // clone receiver
                if handles.is_empty() {
                    continue;
                }
                let hi = (rng(&mut seed) as usize) % handles.len();
                let s = handles[hi].stream;
                if let H::M(r) = &handles[hi].h {
                    let c = r.clone();
                    trace.push(format!("clone h{} s{}", hi, s));
                    nh[s] += 1;
                    handles.push(Handle { h: H::M(c), stream: s });
                }
            } else if op < 80 {
                // add stream
                if handles.is_empty() {
                    continue;
                }
                let hi = (rng(&mut seed) as usize) % handles.len();
                let s = handles[hi].stream;
                if let H::M(r) = &handles[hi].h {
                    let c = r.add_stream();
                    trace.push(format!("add_stream from h{} s{} -> s{}", hi, s, pos.len()));
                    pos.push(pos[s]);
                    nh.push(1);
                    handles.push(Handle { h: H::M(c), stream: pos.len() - 1 });
                }
            } else if op < 90 {
                // drop / unsubscribe receiver
                if handles.is_empty() {
                    continue;
                }
                let hi = (rng(&mut seed) as usize) % handles.len();
                let h = handles.swap_remove(hi);
                let s = h.stream;
                nh[s] -= 1;
                let expect_last = nh[s] == 0;
                match h.h {
                    H::M(r) => {
                        if rng(&mut seed) % 2 == 0 {
                            let was = r.unsubscribe();
                            trace.push(format!("unsubscribe s{} -> {}", s, was));
                            assert_eq!(was, expect_last, "round {}: {:#?}", round, trace);
                        } else {
                            trace.push(format!("drop s{}", s));
                            drop(r);
                        }
                    }
                    H::U(r) => {
                        trace.push(format!("drop uni s{}", s));
                        assert!(expect_last);
                        if rng(&mut seed) % 2 == 0 {
                            r.unsubscribe();
                        } else {
                            drop(r);
                        }
                    }
                }
                if expect_last {
                    pos[s] = None;
                }
            } else if op < 94 {
                // into_single / into_multi
                if handles.is_empty() {
                    continue;
                }
                let hi = (rng(&mut seed) as usize) % handles.len();
                let h = handles.swap_remove(hi);
                let s = h.stream;
                let nhh = match h.h {
                    H::M(r) => match r.into_single() {
                        Ok(u) => {
                            assert_eq!(nh[s], 1);
                            trace.push(format!("into_single s{} ok", s));
                            H::U(u)
                        }
                        Err(r) => {
                            assert!(nh[s] > 1);
                            H::M(r)
                        }
                    },
                    H::U(u) => {
                        trace.push(format!("into_multi s{}", s));
                        H::M(u.into_multi())
                    }
                };
                handles.push(Handle { h: nhh, stream: s });
            } else if op < 97 {
                // clone sender
                if senders.is_empty() {
                    continue;
                }
                let si = (rng(&mut seed) as usize) % senders.len();
                let c = senders[si].clone();
                trace.push(format!("clone sender {}", si));
                senders.push(c);
            } else {
                if senders.is_empty() {
                    continue;
                }
                let si = (rng(&mut seed) as usize) % senders.len();
                trace.push(format!("drop sender {}", si));
                let s = senders.swap_remove(si);
                if rng(&mut seed) % 2 == 0 {
                    s.unsubscribe();
                } else {
                    drop(s);
                }
            }
        }
        // final: drop all senders, drain everything
        senders.clear();
        for h in handles.iter() {
            let s = h.stream;
            loop {
                let res = match &h.h {
                    H::M(r) => r.try_recv(),
                    H::U(r) => r.try_recv_view(|x| *x).map_err(|e| e.1),
                };
                let p = pos[s].unwrap();
                if p < log.len() {
                    assert_eq!(res, Ok(log[p]), "final round {}: {:#?}", round, trace);
                    pos[s] = Some(p + 1);
                } else {
                    assert_eq!(res, Err(TryRecvError::Disconnected), "final round {}: {:#?}", round, trace);
                    break;
                }
            }
        }
    }
}
