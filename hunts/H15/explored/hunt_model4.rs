extern crate futures;
extern crate multiqueue2 as mq;

use futures::executor::{spawn, Notify, NotifyHandle, Spawn};
use futures::{Async, AsyncSink};
use std::sync::mpsc::{TryRecvError, TrySendError};
use std::sync::{Arc, Mutex};

fn rng(seed: &mut u64) -> u64 {
    *seed ^= *seed << 13;
    *seed ^= *seed >> 7;
    *seed ^= *seed << 17;
    *seed
}

struct Rec(Mutex<Vec<bool>>);
impl Notify for Rec {
    fn notify(&self, id: usize) {
        let mut g = self.0.lock().unwrap();
        if g.len() <= id {
            g.resize(id + 1, false);
        }
        g[id] = true;
    }
}

type Op = fn(&u64) -> u64;
fn ident(x: &u64) -> u64 {
    *x
}

enum H {
    M(Spawn<mq::MPMCFutReceiver<u64>>),
    U(Spawn<mq::MPMCFutUniReceiver<u64, Op, u64>>),
}

struct RH {
    h: H,
    stream: usize,
    id: usize,
    parked: bool,
}

struct SH {
    s: Spawn<mq::MPMCFutSender<u64>>,
    id: usize,
    parked: bool,
}

#[test]
fn model_mpmc_futures_sequential() {
    let (mut ws, mut wr, mut ps, mut pr) = (0u64, 0u64, 0u64, 0u64);
    for round in 0..60000u64 {
        let mut seed = 0xA0761D6478BD642Fu64 ^ (round.wrapping_mul(0x9E3779B97F4A7C15));
        rng(&mut seed);
        let rec = Arc::new(Rec(Mutex::new(vec![])));
        let nh_: NotifyHandle = NotifyHandle::from(rec.clone());
        let cap_req = 1 + rng(&mut seed) % 4;
        let cap = cap_req.next_power_of_two() as usize;
        let (tx, rx) = mq::mpmc_fut_queue::<u64>(cap_req);
        let mut next_id = 0usize;
        let mut new_id = || {
            next_id += 1;
            next_id - 1
        };
        let mut senders = vec![SH { s: spawn(tx), id: new_id(), parked: false }];
        let mut handles = vec![RH { h: H::M(spawn(rx)), stream: 0, id: new_id(), parked: false }];
        let mut log: Vec<u64> = vec![];
        let mut pos: Vec<Option<usize>> = vec![Some(0)];
        let mut nh: Vec<usize> = vec![1];
        let mut next_val = 0u64;
        let mut trace: Vec<String> = vec![];
        let steps = 5 + rng(&mut seed) % 80;
        for _ in 0..steps {
            let op = rng(&mut seed) % 100;
            let live: Vec<usize> = pos.iter().filter_map(|p| *p).collect();
            let room = !live.is_empty() && log.len() - *live.iter().min().unwrap() < cap;
            if op < 30 {
                // send through the Sink or directly
                if senders.is_empty() {
                    continue;
                }
                let si = (rng(&mut seed) as usize) % senders.len();
                let direct = rng(&mut seed) % 3 == 0;
                let sid = senders[si].id;
                let outcome: u8; // 0 ok, 1 full, 2 disc
                if direct {
                    outcome = match senders[si].s.get_ref().try_send(next_val) {
                        Ok(()) => 0,
                        Err(TrySendError::Full(_)) => 1,
                        Err(TrySendError::Disconnected(_)) => 2,
                    };
                } else {
                    rec.notify(sid);
                    rec.0.lock().unwrap()[sid] = false;
                    outcome = match senders[si].s.start_send_notify(next_val, &nh_, sid) {
                        Ok(AsyncSink::Ready) => 0,
                        Ok(AsyncSink::NotReady(_)) => {
                            senders[si].parked = true;
                            ps += 1;
                            1
                        }
                        Err(_) => 2,
                    };
                    if outcome != 1 {
                        senders[si].parked = false;
                    }
                }
                trace.push(format!("send[{} direct={}] {} -> {}", si, direct, next_val, outcome));
                if live.is_empty() {
                    assert_eq!(outcome, 2, "round {} expected Disconnected: {:#?}", round, trace);
                } else if room {
                    assert_eq!(outcome, 0, "round {} expected Ok: {:#?}", round, trace);
                    log.push(next_val);
                    next_val += 1;
                } else {
                    assert_eq!(outcome, 1, "round {} expected Full: {:#?}", round, trace);
                }
            } else if op < 62 {
                // receive: poll or direct try_recv
                if handles.is_empty() {
                    continue;
                }
                let hi = (rng(&mut seed) as usize) % handles.len();
                let s = handles[hi].stream;
                let hid = handles[hi].id;
                let direct = rng(&mut seed) % 3 == 0;
                let res: Result<u64, TryRecvError>;
                if direct {
                    res = match &mut handles[hi].h {
                        H::M(r) => r.get_ref().try_recv(),
                        H::U(r) => r.get_mut().try_recv(),
                    };
                } else {
                    rec.notify(hid);
                    rec.0.lock().unwrap()[hid] = false;
                    let p = match &mut handles[hi].h {
                        H::M(r) => r.poll_stream_notify(&nh_, hid),
                        H::U(r) => r.poll_stream_notify(&nh_, hid),
                    };
                    res = match p {
                        Ok(Async::Ready(Some(v))) => Ok(v),
                        Ok(Async::Ready(None)) => Err(TryRecvError::Disconnected),
                        Ok(Async::NotReady) => Err(TryRecvError::Empty),
                        Err(()) => panic!("stream error"),
                    };
                    handles[hi].parked = res == Err(TryRecvError::Empty);
                    if handles[hi].parked { pr += 1; }
                }
                trace.push(format!("recv[h{} s{} direct={}] -> {:?}", hi, s, direct, res));
                let p = pos[s].unwrap();
                if p < log.len() {
                    assert_eq!(res, Ok(log[p]), "round {}: {:#?}", round, trace);
                    pos[s] = Some(p + 1);
                } else if senders.is_empty() {
                    assert_eq!(res, Err(TryRecvError::Disconnected), "round {}: {:#?}", round, trace);
                } else {
                    assert_eq!(res, Err(TryRecvError::Empty), "round {}: {:#?}", round, trace);
                }
            } else if op < 69 {
                if handles.is_empty() {
                    continue;
                }
                let hi = (rng(&mut seed) as usize) % handles.len();
                let s = handles[hi].stream;
                if let H::M(r) = &handles[hi].h {
                    let c = r.get_ref().clone();
                    trace.push(format!("clone h{} s{}", hi, s));
                    nh[s] += 1;
                    handles.push(RH { h: H::M(spawn(c)), stream: s, id: new_id(), parked: false });
                }
            } else if op < 77 {
                continue;
            } else if op < 87 {
                if handles.is_empty() {
                    continue;
                }
                let hi = (rng(&mut seed) as usize) % handles.len();
                let h = handles.swap_remove(hi);
                let s = h.stream;
                nh[s] -= 1;
                let expect_last = nh[s] == 0;
                let unsub = rng(&mut seed) % 2 == 0;
                match h.h {
                    H::M(r) => {
                        if unsub {
                            let was = r.into_inner().unsubscribe();
                            assert_eq!(was, expect_last, "round {}: {:#?}", round, trace);
                        } else {
                            drop(r);
                        }
                    }
                    H::U(r) => {
                        if unsub {
                            let was = r.into_inner().unsubscribe();
                            assert_eq!(was, expect_last, "round {}: {:#?}", round, trace);
                        } else {
                            drop(r);
                        }
                    }
                }
                trace.push(format!("drop/unsub({}) s{} last={}", unsub, s, expect_last));
                if expect_last {
                    pos[s] = None;
                }
            } else if op < 93 {
                if handles.is_empty() {
                    continue;
                }
                let hi = (rng(&mut seed) as usize) % handles.len();
                let h = handles.swap_remove(hi);
                let s = h.stream;
                let which = rng(&mut seed) % 2;
                let nhh = match h.h {
                    H::M(r) => match r.into_inner().into_single(ident as Op) {
                        Ok(u) => {
                            assert_eq!(nh[s], 1);
                            trace.push(format!("into_single s{} ok", s));
                            H::U(spawn(u))
                        }
                        Err((_, r)) => {
                            assert!(nh[s] > 1);
                            trace.push(format!("into_single s{} refused", s));
                            H::M(spawn(r))
                        }
                    },
                    H::U(u) => {
                        if which == 0 {
                            trace.push(format!("into_multi s{}", s));
                            H::M(spawn(u.into_inner().into_multi()))
                        } else {
                            trace.push(format!("transform_operation s{}", s));
                            H::U(spawn(u.into_inner().transform_operation(ident as Op)))
                        }
                    }
                };
                handles.push(RH { h: nhh, stream: s, id: new_id(), parked: false });
            } else if op < 97 {
                if senders.is_empty() {
                    continue;
                }
                let si = (rng(&mut seed) as usize) % senders.len();
                let c = senders[si].s.get_ref().clone();
                trace.push(format!("clone sender {}", si));
                senders.push(SH { s: spawn(c), id: new_id(), parked: false });
            } else {
                if senders.is_empty() {
                    continue;
                }
                let si = (rng(&mut seed) as usize) % senders.len();
                trace.push(format!("drop sender {}", si));
                let s = senders.swap_remove(si);
                if rng(&mut seed) % 2 == 0 {
                    s.s.into_inner().unsubscribe();
                } else {
                    drop(s);
                }
            }

            // wake-up accounting
            let flags = rec.0.lock().unwrap().clone();
            let live: Vec<usize> = pos.iter().filter_map(|p| *p).collect();
            let room = !live.is_empty() && log.len() - *live.iter().min().unwrap() < cap;
            for sh in senders.iter_mut() {
                if sh.parked {
                    if flags.get(sh.id).cloned().unwrap_or(false) {
                        sh.parked = false;
                        ws += 1;
                    } else if live.is_empty() || room {
                        panic!(
                            "round {}: parked sender task {} not notified although a retry would not be Full (room={} streams={}): {:#?}",
                            round, sh.id, room, live.len(), trace
                        );
                    }
                }
            }
            for rh in handles.iter_mut() {
                if rh.parked {
                    if flags.get(rh.id).cloned().unwrap_or(false) {
                        rh.parked = false;
                        wr += 1;
                    } else if pos[rh.stream].unwrap() < log.len() || senders.is_empty() {
                        panic!(
                            "round {}: parked receiver task {} (s{}) not notified although a value / the end is available: {:#?}",
                            round, rh.id, rh.stream, trace
                        );
                    }
                }
            }
        }
    }
    eprintln!("sender parks {} wakes {}; receiver parks {} wakes {}", ps, ws, pr, wr);
}
