extern crate futures;
extern crate multiqueue2 as mq;

use std::sync::atomic::{AtomicUsize, Ordering};
use std::sync::mpsc::{TryRecvError, TrySendError};
use std::sync::Arc;

fn rng(seed: &mut u64) -> u64 {
    *seed ^= *seed << 13;
    *seed ^= *seed >> 7;
    *seed ^= *seed << 17;
    *seed
}

struct D(u64, Arc<AtomicUsize>);
impl Clone for D {
    fn clone(&self) -> D {
        panic!("mpmc never clones")
    }
}
impl Drop for D {
    fn drop(&mut self) {
        self.1.fetch_add(1, Ordering::SeqCst);
    }
}

enum H {
    M(mq::MPMCReceiver<D>),
    U(mq::MPMCUniReceiver<D>),
}

#[test]
fn model_mpmc_sequential() {
    for round in 0..200000u64 {
        let mut seed = 0x2545F4914F6CDD1Du64 ^ (round.wrapping_mul(0x9E3779B97F4A7C15));
        rng(&mut seed);
        let drops = Arc::new(AtomicUsize::new(0));
        let mut created = 0usize;
        let cap_req = 1 + rng(&mut seed) % 4;
        let cap = cap_req.next_power_of_two() as usize;
        let (tx, rx) = mq::mpmc_queue::<D>(cap_req);
        let mut senders = vec![tx];
        let mut handles = vec![H::M(rx)];
        let mut log_len = 0usize;
        let mut pos = 0usize;
        let mut next_val = 0u64;
        let mut trace: Vec<String> = vec![];
        let steps = 5 + rng(&mut seed) % 80;
        for _ in 0..steps {
            let op = rng(&mut seed) % 100;
            if op < 40 {
                if senders.is_empty() {
                    continue;
                }
                let si = (rng(&mut seed) as usize) % senders.len();
                created += 1;
                let res = senders[si].try_send(D(next_val, drops.clone()));
                trace.push(format!("send[{}] {} -> {}", si, next_val, match &res { Ok(()) => "ok", Err(TrySendError::Full(_)) => "full", Err(TrySendError::Disconnected(_)) => "disc" }));
                if handles.is_empty() {
                    match res {
                        Err(TrySendError::Disconnected(v)) => assert_eq!(v.0, next_val),
                        _ => panic!("round {} expected Disconnected: {:#?}", round, trace),
                    }
                } else if log_len - pos < cap {
                    assert!(res.is_ok(), "round {} expected Ok: {:#?}", round, trace);
                    log_len += 1;
                    next_val += 1;
                } else {
                    match res {
                        Err(TrySendError::Full(v)) => assert_eq!(v.0, next_val),
                        _ => panic!("round {} expected Full: {:#?}", round, trace),
                    }
                }
            } else if op < 70 {
                if handles.is_empty() {
                    continue;
                }
                let hi = (rng(&mut seed) as usize) % handles.len();
                let view = rng(&mut seed) % 2 == 0;
                let res: Result<u64, TryRecvError> = match &handles[hi] {
                    H::M(r) => r.try_recv().map(|d| d.0),
                    H::U(r) => {
                        if view {
                            r.try_recv_view(|x| x.0).map_err(|e| e.1)
                        } else {
                            r.try_recv().map(|d| d.0)
                        }
                    }
                };
                trace.push(format!("recv[h{}] -> {:?}", hi, res));
                if pos < log_len {
                    assert_eq!(res, Ok(pos as u64), "round {}: {:#?}", round, trace);
                    pos += 1;
                } else if senders.is_empty() {
                    assert_eq!(res, Err(TryRecvError::Disconnected), "round {}: {:#?}", round, trace);
                } else {
                    assert_eq!(res, Err(TryRecvError::Empty), "round {}: {:#?}", round, trace);
                }
            } else if op < 78 {
                if handles.is_empty() {
                    continue;
                }
                let hi = (rng(&mut seed) as usize) % handles.len();
                if let H::M(r) = &handles[hi] {
                    let c = r.clone();
                    trace.push(format!("clone h{}", hi));
                    handles.push(H::M(c));
                }
            } else if op < 88 {
                if handles.is_empty() {
                    continue;
                }
                let hi = (rng(&mut seed) as usize) % handles.len();
                let h = handles.swap_remove(hi);
                let expect_last = handles.is_empty();
                let was = match h {
                    H::M(r) => r.unsubscribe(),
                    H::U(r) => r.unsubscribe(),
                };
                trace.push(format!("unsubscribe -> {}", was));
                assert_eq!(was, expect_last, "round {}: {:#?}", round, trace);
            } else if op < 93 {
                if handles.is_empty() {
                    continue;
                }
                let hi = (rng(&mut seed) as usize) % handles.len();
                let h = handles.swap_remove(hi);
                let n = handles.len();
                let nhh = match h {
                    H::M(r) => match r.into_single() {
                        Ok(u) => {
                            assert_eq!(n, 0);
                            H::U(u)
                        }
                        Err(r) => {
                            assert!(n > 0);
                            H::M(r)
                        }
                    },
                    H::U(u) => H::M(u.into_multi()),
                };
                handles.push(nhh);
            } else if op < 97 {
                if senders.is_empty() {
                    continue;
                }
                let si = (rng(&mut seed) as usize) % senders.len();
                let c = senders[si].clone();
                senders.push(c);
                trace.push("clone sender".to_string());
            } else {
                if senders.is_empty() {
                    continue;
                }
                let si = (rng(&mut seed) as usize) % senders.len();
                senders.swap_remove(si);
                trace.push("drop sender".to_string());
            }
        }
        // tear down in random order
        if rng(&mut seed) % 2 == 0 {
            senders.clear();
            handles.clear();
        } else {
            handles.clear();
            senders.clear();
        }
        assert_eq!(drops.load(Ordering::SeqCst), created, "round {} drop count: {:#?}", round, trace);
    }
}
