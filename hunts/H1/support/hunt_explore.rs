extern crate futures;
extern crate multiqueue2 as mq;

use futures::future::lazy;
use futures::{Async, Future, Sink, Stream};
use std::alloc::{GlobalAlloc, Layout, System};
use std::sync::atomic::{AtomicIsize, Ordering};

struct Counting;
static LIVE: AtomicIsize = AtomicIsize::new(0);
static NLIVE: AtomicIsize = AtomicIsize::new(0);

unsafe impl GlobalAlloc for Counting {
    unsafe fn alloc(&self, l: Layout) -> *mut u8 {
        LIVE.fetch_add(l.size() as isize, Ordering::Relaxed);
        NLIVE.fetch_add(1, Ordering::Relaxed);
        System.alloc(l)
    }
    unsafe fn dealloc(&self, p: *mut u8, l: Layout) {
        LIVE.fetch_sub(l.size() as isize, Ordering::Relaxed);
        NLIVE.fetch_sub(1, Ordering::Relaxed);
        System.dealloc(p, l)
    }
    unsafe fn realloc(&self, p: *mut u8, l: Layout, n: usize) -> *mut u8 {
        LIVE.fetch_add(n as isize - l.size() as isize, Ordering::Relaxed);
        System.realloc(p, l, n)
    }
}

#[global_allocator]
static A: Counting = Counting;

fn live() -> (isize, isize) {
    (LIVE.load(Ordering::SeqCst), NLIVE.load(Ordering::SeqCst))
}

/// runs `cycle` n times; reports live bytes after 200 cycles and after n cycles, then teardown
fn scenario<S, FS: FnOnce() -> S, FC: FnMut(&mut S, usize)>(name: &str, n: usize, setup: FS, mut cycle: FC) {
    let base = live();
    {
        let mut s = setup();
        for i in 0..200 {
            cycle(&mut s, i);
        }
        let a = live();
        let mut maxl = 0;
        for i in 200..n {
            cycle(&mut s, i);
            let l = live().0;
            if l > maxl {
                maxl = l;
            }
        }
        let b = live();
        println!(
            "{:40} after200: {:?}  afterN: {:?} max {}  growth bytes {}  {}",
            name,
            (a.0 - base.0, a.1 - base.1),
            (b.0 - base.0, b.1 - base.1),
            maxl - base.0,
            b.0 - a.0,
            if maxl - a.0 > 4096 { "<<<<<< GROWTH" } else { "" }
        );
    }
    let end = live();
    if end != base {
        println!("{:40} TEARDOWN LEAK: {:?}", name, (end.0 - base.0, end.1 - base.1));
    }
}

#[test]
fn explore() {
    let n = 20000;
    lazy(move || -> Result<(), ()> {
        // 1. broadcast add_stream/drop, tx+rx operate
        scenario(
            "bcast add_stream/drop",
            n,
            || mq::broadcast_queue::<u64>(4),
            |s, i| {
                let r2 = s.1.add_stream();
                let _ = s.0.try_send(i as u64);
                let _ = s.1.try_recv();
                drop(r2);
            },
        );
        scenario(
            "bcast add_stream/drop, ops after",
            n,
            || mq::broadcast_queue::<u64>(4),
            |s, i| {
                let r2 = s.1.add_stream();
                drop(r2);
                let _ = s.0.try_send(i as u64);
                let _ = s.1.try_recv();
            },
        );
        scenario(
            "bcast rx clone/drop",
            n,
            || mq::broadcast_queue::<u64>(4),
            |s, i| {
                let r2 = s.1.clone();
                let _ = s.0.try_send(i as u64);
                let _ = s.1.try_recv();
                drop(r2);
            },
        );
        scenario(
            "bcast tx clone/drop",
            n,
            || mq::broadcast_queue::<u64>(4),
            |s, i| {
                let t2 = s.0.clone();
                let _ = s.0.try_send(i as u64);
                let _ = s.1.try_recv();
                drop(t2);
            },
        );
        scenario(
            "bcast tx clone/drop; sender only clones",
            n,
            || mq::broadcast_queue::<u64>(4),
            |s, _i| {
                let t2 = s.0.clone();
                let _ = s.1.try_recv();
                drop(t2);
            },
        );
        scenario(
            "bcast replace rx by clone (non-last drop)",
            n,
            || {
                let (t, r) = mq::broadcast_queue::<u64>(4);
                (t, Some(r))
            },
            |s, i| {
                let r = s.1.take().unwrap();
                let r2 = r.clone();
                drop(r);
                let _ = s.0.try_send(i as u64);
                let _ = r2.try_recv();
                s.1 = Some(r2);
            },
        );
        scenario(
            "bcast replace rx by add_stream",
            n,
            || {
                let (t, r) = mq::broadcast_queue::<u64>(4);
                (t, Some(r))
            },
            |s, i| {
                let r = s.1.take().unwrap();
                let r2 = r.add_stream();
                drop(r);
                let _ = s.0.try_send(i as u64);
                let _ = r2.try_recv();
                s.1 = Some(r2);
            },
        );
        scenario(
            "bcast replace tx by clone",
            n,
            || {
                let (t, r) = mq::broadcast_queue::<u64>(4);
                (Some(t), r)
            },
            |s, i| {
                let t = s.0.take().unwrap();
                let t2 = t.clone();
                drop(t);
                let _ = t2.try_send(i as u64);
                let _ = s.1.try_recv();
                s.0 = Some(t2);
            },
        );
        scenario(
            "bcast into_single/into_multi",
            n,
            || {
                let (t, r) = mq::broadcast_queue::<u64>(4);
                (t, Some(r))
            },
            |s, i| {
                let r = s.1.take().unwrap();
                let r2 = r.add_stream();
                let u = r2.into_single().unwrap();
                let _ = s.0.try_send(i as u64);
                let _ = u.try_recv_view(|x| *x);
                let _ = r.try_recv();
                let m = u.into_multi();
                drop(m);
                s.1 = Some(r);
            },
        );
        // futures
        scenario(
            "fut bcast add_stream/poll/drop",
            n,
            || mq::broadcast_fut_queue::<u64>(4),
            |s, i| {
                let mut r2 = s.1.add_stream();
                let _ = r2.poll();
                let _ = s.0.try_send(i as u64);
                let _ = s.1.try_recv();
                drop(r2);
            },
        );
        scenario(
            "fut bcast add_stream/poll/drop after",
            n,
            || mq::broadcast_fut_queue::<u64>(4),
            |s, i| {
                let _ = s.0.try_send(i as u64);
                let _ = s.1.try_recv();
                let mut r2 = s.1.add_stream();
                let _ = r2.poll();
                drop(r2);
            },
        );
        scenario(
            "fut bcast into_single/transform/into_multi",
            n,
            || mq::broadcast_fut_queue::<u64>(4),
            |s, i| {
                let r2 = s.1.add_stream();
                let u = r2.into_single(|x: &u64| *x).ok().unwrap();
                let mut u2 = u.transform_operation(|x: &u64| *x + 1);
                let u3 = u2.add_stream_with(|x: &u64| *x + 2);
                let _ = s.0.try_send(i as u64);
                let _ = u2.poll();
                let _ = s.1.poll();
                let m = u2.into_multi();
                drop(u3);
                drop(m);
            },
        );
        scenario(
            "fut bcast into_single Err path",
            n,
            || mq::broadcast_fut_queue::<u64>(4),
            |s, i| {
                let r2 = s.1.clone();
                let r3 = match r2.into_single(|x: &u64| *x) {
                    Ok(_) => panic!(),
                    Err((_, r)) => r,
                };
                let _ = s.0.try_send(i as u64);
                let _ = s.1.try_recv();
                drop(r3);
            },
        );
        scenario(
            "fut bcast sink start_send full + churn",
            n,
            || mq::broadcast_fut_queue::<u64>(2),
            |s, i| {
                let r2 = s.1.add_stream();
                let _ = s.0.start_send(i as u64);
                let _ = s.0.start_send(i as u64);
                let _ = s.0.start_send(i as u64);
                if i % 3 == 0 {
                    let _ = s.1.poll();
                }
                drop(r2);
            },
        );
        scenario(
            "mpmc rx clone/drop",
            n,
            || mq::mpmc_queue::<u64>(4),
            |s, i| {
                let r2 = s.1.clone();
                let _ = s.0.try_send(i as u64);
                let _ = s.1.try_recv();
                drop(r2);
            },
        );
        scenario(
            "mpmc fut into_single/into_multi replace",
            n,
            || {
                let (t, r) = mq::mpmc_fut_queue::<u64>(4);
                (t, Some(r))
            },
            |s, i| {
                let r = s.1.take().unwrap();
                let mut u = r.into_single(|x: &u64| *x).ok().unwrap();
                let _ = s.0.try_send(i as u64);
                let _ = u.poll();
                let m = u.into_multi();
                s.1 = Some(m);
            },
        );
        // fixed set with several streams and idle-looking operations
        scenario(
            "bcast 3 fixed streams, churn on third",
            n,
            || {
                let (t, r) = mq::broadcast_queue::<u64>(8);
                let r2 = r.add_stream();
                let r3 = r2.add_stream();
                (t, r, r2, r3)
            },
            |s, i| {
                let x = s.3.add_stream();
                let y = x.clone();
                drop(x);
                let _ = s.0.try_send(i as u64);
                let _ = s.1.try_recv();
                let _ = s.2.try_recv();
                let _ = s.3.try_recv();
                drop(y);
            },
        );
        Ok(())
    })
    .wait()
    .unwrap();
}
