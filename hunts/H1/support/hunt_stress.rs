extern crate multiqueue2 as mq;

use std::alloc::{GlobalAlloc, Layout, System};
use std::sync::atomic::{AtomicBool, AtomicIsize, AtomicUsize, Ordering};
use std::sync::Arc;
use std::thread;
use std::time::{Duration, Instant};

const QN: usize = 4096;
struct Poison;
static LIVE: AtomicIsize = AtomicIsize::new(0);
static QLOCK: AtomicBool = AtomicBool::new(false);
static mut QUAR: [(usize, usize, usize); QN] = [(0, 0, 0); QN];
static mut QPOS: usize = 0;
static CORRUPT: AtomicUsize = AtomicUsize::new(0);
static FREED_SMALL: AtomicUsize = AtomicUsize::new(0);

unsafe impl GlobalAlloc for Poison {
    unsafe fn alloc(&self, l: Layout) -> *mut u8 {
        LIVE.fetch_add(l.size() as isize, Ordering::Relaxed);
        System.alloc(l)
    }
    unsafe fn dealloc(&self, p: *mut u8, l: Layout) {
        LIVE.fetch_sub(l.size() as isize, Ordering::Relaxed);
        if l.size() <= 128 && l.size() >= 8 {
            FREED_SMALL.fetch_add(1, Ordering::Relaxed);
            std::ptr::write_bytes(p, 0xDD, l.size());
            while QLOCK.swap(true, Ordering::Acquire) {
                std::hint::spin_loop();
            }
            let slot = &mut QUAR[QPOS % QN];
            let old = *slot;
            *slot = (p as usize, l.size(), l.align());
            QPOS += 1;
            QLOCK.store(false, Ordering::Release);
            if old.0 != 0 {
                let op = old.0 as *mut u8;
                for i in 0..old.1 {
                    if *op.add(i) != 0xDD {
                        CORRUPT.fetch_add(1, Ordering::Relaxed);
                        break;
                    }
                }
                System.dealloc(op, Layout::from_size_align_unchecked(old.1, old.2));
            }
        } else {
            System.dealloc(p, l)
        }
    }
}

#[global_allocator]
static A: Poison = Poison;

fn rng(s: &mut u64) -> u64 {
    *s ^= *s << 13;
    *s ^= *s >> 7;
    *s ^= *s << 17;
    *s
}

fn run(secs: u64, cap: u64, nchurn: usize, nwriters: usize, idle_period: u64) {
    let (tx, rx) = mq::broadcast_queue::<u64>(cap);
    let stop = Arc::new(AtomicBool::new(false));
    let mut hs = Vec::new();
    for w in 0..nwriters {
        let t = tx.clone();
        let stop = stop.clone();
        hs.push(thread::spawn(move || {
            let mut i = 0u64;
            while !stop.load(Ordering::Relaxed) {
                let _ = t.try_send(i);
                i += 1;
                if w == 1 && i % 64 == 0 {
                    thread::yield_now();
                }
            }
        }));
    }
    // sender churn
    {
        let t = tx.clone();
        let stop = stop.clone();
        hs.push(thread::spawn(move || {
            let mut s = 0x1234u64;
            while !stop.load(Ordering::Relaxed) {
                let t2 = t.clone();
                if rng(&mut s) % 2 == 0 {
                    let _ = t2.try_send(7);
                }
                drop(t2);
            }
        }));
    }
    for c in 0..nchurn {
        let base = if c % 2 == 0 { rx.add_stream() } else { rx.clone() };
        let stop = stop.clone();
        hs.push(thread::spawn(move || {
            let mut s = 0x9E3779B97F4A7C15u64 ^ (c as u64 + 1);
            let mut held: Vec<mq::BroadcastReceiver<u64>> = Vec::new();
            let mut n = 0u64;
            while !stop.load(Ordering::Relaxed) {
                n += 1;
                match rng(&mut s) % 8 {
                    0 | 1 => held.push(base.add_stream()),
                    2 => held.push(base.clone()),
                    3 => {
                        if !held.is_empty() {
                            let k = (rng(&mut s) as usize) % held.len();
                            let h = held[k].add_stream();
                            held.push(h);
                        }
                    }
                    4 | 5 => {
                        if !held.is_empty() {
                            let k = (rng(&mut s) as usize) % held.len();
                            drop(held.swap_remove(k));
                        }
                    }
                    6 => {
                        for _ in 0..4 {
                            let _ = base.try_recv();
                        }
                        // idle handles only get used every idle_period steps
                        if idle_period > 0 && n % idle_period == 0 {
                            for h in &held {
                                let _ = h.try_recv();
                            }
                        }
                    }
                    _ => {
                        if held.len() > 6 {
                            held.clear();
                        }
                    }
                }
                // never let a held (idle) stream block the writers for long
                if held.len() > 8 {
                    held.clear();
                }
            }
        }));
    }
    // main reader
    let start = Instant::now();
    let mut got = 0u64;
    while start.elapsed() < Duration::from_secs(secs) {
        for _ in 0..1000 {
            if rx.try_recv().is_ok() {
                got += 1;
            }
        }
    }
    stop.store(true, Ordering::Relaxed);
    for h in hs {
        h.join().unwrap();
    }
    drop(tx);
    drop(rx);
    println!(
        "cap {} churn {} writers {} idle {}: got {} small frees {} corrupt {} live {}",
        cap,
        nchurn,
        nwriters,
        idle_period,
        got,
        FREED_SMALL.load(Ordering::Relaxed),
        CORRUPT.load(Ordering::Relaxed),
        LIVE.load(Ordering::Relaxed)
    );
    assert_eq!(CORRUPT.load(Ordering::Relaxed), 0);
}

#[test]
fn stress() {
    run(3, 4, 3, 2, 0);
    run(3, 1, 4, 2, 50);
    run(3, 64, 6, 3, 1000);
    run(3, 2, 2, 1, 0);
}
