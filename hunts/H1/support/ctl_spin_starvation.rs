use std::sync::atomic::{AtomicU64, Ordering};
use std::sync::Arc;
use std::thread;
use std::time::{Duration, Instant};
fn main() {
    let n = 5;
    let cs: Vec<Arc<AtomicU64>> = (0..n).map(|_| Arc::new(AtomicU64::new(0))).collect();
    for c in &cs {
        let c = c.clone();
        thread::spawn(move || loop {
            c.fetch_add(1, Ordering::Relaxed);
        });
    }
    let start = Instant::now();
    let mut last: Vec<u64> = vec![0; n];
    let mut lastt = Instant::now();
    let mut maxgap = vec![0u128; n];
    let mut frozen_since: Vec<Option<Instant>> = vec![None; n];
    while start.elapsed() < Duration::from_secs(30) {
        thread::sleep(Duration::from_millis(20));
        for i in 0..n {
            let v = cs[i].load(Ordering::Relaxed);
            if v == last[i] {
                if frozen_since[i].is_none() { frozen_since[i] = Some(lastt); }
            } else if let Some(t) = frozen_since[i].take() {
                let g = t.elapsed().as_millis();
                if g > maxgap[i] { maxgap[i] = g; }
            }
            last[i] = v;
        }
        lastt = Instant::now();
    }
    println!("max frozen gaps per spinning thread (ms): {:?}", maxgap);
}
