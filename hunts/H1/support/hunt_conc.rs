extern crate multiqueue2 as mq;

use std::alloc::{GlobalAlloc, Layout, System};
use std::sync::atomic::{AtomicBool, AtomicIsize, Ordering};
use std::sync::Arc;
use std::thread;

struct Counting;
static LIVE: AtomicIsize = AtomicIsize::new(0);
unsafe impl GlobalAlloc for Counting {
    unsafe fn alloc(&self, l: Layout) -> *mut u8 {
        LIVE.fetch_add(l.size() as isize, Ordering::Relaxed);
        System.alloc(l)
    }
    unsafe fn dealloc(&self, p: *mut u8, l: Layout) {
        LIVE.fetch_sub(l.size() as isize, Ordering::Relaxed);
        System.dealloc(p, l)
    }
    unsafe fn realloc(&self, p: *mut u8, l: Layout, n: usize) -> *mut u8 {
        LIVE.fetch_add(n as isize - l.size() as isize, Ordering::Relaxed);
        System.realloc(p, l, n)
    }
}
#[global_allocator]
static A: Counting = Counting;

fn run(name: &str, blocking_recv: bool, nchurn: usize, cycles: usize) {
    let base = LIVE.load(Ordering::SeqCst);
    {
        let (tx, rx) = mq::broadcast_queue::<u64>(8);
        let stop = Arc::new(AtomicBool::new(false));
        let mut hs = Vec::new();
        let churn_tx: Vec<_> = (0..nchurn).map(|_| tx.clone()).collect();
        {
            let t = tx;
            let stop = stop.clone();
            hs.push(thread::spawn(move || {
                let mut i = 0;
                while !stop.load(Ordering::Relaxed) {
                    if t.try_send(i).is_ok() {
                        i += 1;
                    }
                }
            }));
        }
        {
            let r = rx.add_stream();
            hs.push(thread::spawn(move || loop {
                if blocking_recv {
                    if r.recv().is_err() {
                        break;
                    }
                } else {
                    match r.try_recv() {
                        Err(std::sync::mpsc::TryRecvError::Disconnected) => break,
                        _ => {}
                    }
                }
            }));
        }
        let mut chs = Vec::new();
        for (c, t) in churn_tx.into_iter().enumerate() {
            let r = rx.clone();
            chs.push(thread::spawn(move || {
                let mut maxl = 0;
                for i in 0..cycles {
                    match (i + c) % 4 {
                        0 => {
                            let x = r.add_stream();
                            drop(x);
                        }
                        1 => {
                            let x = r.clone();
                            let y = x.add_stream();
                            drop(x);
                            drop(y);
                        }
                        2 => {
                            let x = t.clone();
                            drop(x);
                            let _ = t.try_send(0);
                        }
                        _ => {
                            let x = r.add_stream().into_single().unwrap();
                            let _ = x.try_recv_view(|v| *v);
                            drop(x.into_multi());
                        }
                    }
                    // the stream of r must not hold the writers back
                    while r.try_recv().is_ok() {}
                    let l = LIVE.load(Ordering::Relaxed);
                    if l > maxl {
                        maxl = l;
                    }
                    if c == 0 && i % 10000 == 0 {
                        println!("   cycle {} live {}", i, l);
                    }
                }
                maxl
            }));
        }
        // main: rx operates too
        let mut maxl = 0;
        let mut done = 0;
        while done < chs.len() {
            while rx.try_recv().is_ok() {}
            done = chs.iter().filter(|h| h.is_finished()).count();
        }
        for h in chs {
            let m = h.join().unwrap();
            if m > maxl {
                maxl = m;
            }
        }
        stop.store(true, Ordering::Relaxed);
        let end = LIVE.load(Ordering::SeqCst);
        while rx.try_recv().is_ok() {}
        drop(rx);
        for h in hs {
            h.join().unwrap();
        }
        println!("{:30} max live {} end live {}", name, maxl - base, end - base);
    }
    let fin = LIVE.load(Ordering::SeqCst);
    println!("{:30} after teardown {}", name, fin - base);
}

#[test]
fn conc() {
    run("try_recv 1 churn 1e5", false, 1, 100_000);
    run("try_recv 1 churn 1e5", false, 1, 100_000);
    run("try_recv 1 churn 4e5", false, 1, 400_000);
}
