// ADJACENT FINDING (slot payload, not bookkeeping; see notes.md section 2): an MPMC futures queue can get a second
// stream through MPMCFutUniReceiver::add_stream_with; every stream then moves/drops the
// same payload (MPMC semantics: the value is dropped in place after the view).
extern crate futures;
extern crate multiqueue2 as mq;

use futures::future::lazy;
use futures::{Async, Future, Stream};
use std::sync::atomic::{AtomicUsize, Ordering};

static DROPS: AtomicUsize = AtomicUsize::new(0);
struct P(u64);
impl Drop for P {
    fn drop(&mut self) {
        DROPS.fetch_add(1, Ordering::SeqCst);
    }
}

#[test]
fn mpmc_two_streams_drop_payload_twice() {
    lazy(|| -> Result<(), ()> {
        let (tx, rx) = mq::mpmc_fut_queue::<P>(8);
        let mut a = rx.into_single(|p: &P| p.0).ok().unwrap();
        let mut b = a.add_stream_with(|p: &P| p.0);
        for i in 0..4 {
            assert!(tx.try_send(P(i)).is_ok());
        }
        for i in 0..4 {
            assert_eq!(a.poll(), Ok(Async::Ready(Some(i))));
        }
        for i in 0..4 {
            assert_eq!(b.poll(), Ok(Async::Ready(Some(i))));
        }
        drop(a);
        drop(b);
        drop(tx);
        Ok(())
    })
    .wait()
    .unwrap();
    assert_eq!(DROPS.load(Ordering::SeqCst), 4, "each of the 4 payloads must be dropped exactly once");
}
