// BORDERLINE (C17): a receiver that is blocked inside recv() (it is in the middle of an
// operation, not idle in the sense of "never operates") acknowledges a reclamation epoch only
// once, on entry. While it waits, nothing retired by handle churn is ever freed: the memory
// held by the queue grows linearly with the number of clone/drop cycles.
extern crate multiqueue2 as mq;

use std::alloc::{GlobalAlloc, Layout, System};
use std::sync::atomic::{AtomicIsize, Ordering};
use std::thread;
use std::time::Duration;

struct Counting;
static LIVE: AtomicIsize = AtomicIsize::new(0);
unsafe impl GlobalAlloc for Counting {
    unsafe fn alloc(&self, l: Layout) -> *mut u8 {
        LIVE.fetch_add(l.size() as isize, Ordering::Relaxed);
        System.alloc(l)
    }
    unsafe fn dealloc(&self, p: *mut u8, l: Layout) {
        LIVE.fetch_sub(l.size() as isize, Ordering::Relaxed);
        System.dealloc(p, l)
    }
    unsafe fn realloc(&self, p: *mut u8, l: Layout, n: usize) -> *mut u8 {
        LIVE.fetch_add(n as isize - l.size() as isize, Ordering::Relaxed);
        System.realloc(p, l, n)
    }
}
#[global_allocator]
static A: Counting = Counting;

#[test]
fn churn_while_a_receiver_waits_in_recv() {
    let (tx, rx) = mq::broadcast_queue::<u64>(4);
    let waiter = thread::spawn(move || {
        // blocks until the value sent at the very end arrives
        let v = rx.recv();
        drop(rx);
        v
    });
    thread::sleep(Duration::from_millis(200)); // let it block
    let churn = |n: usize| {
        for _ in 0..n {
            let t2 = tx.clone(); // the churning handle itself acknowledges epochs (c37a714)
            drop(t2);
        }
    };
    churn(1_000);
    let a = LIVE.load(Ordering::SeqCst);
    churn(100_000);
    let b = LIVE.load(Ordering::SeqCst);
    println!("live after 1e3 cycles: {} B, after 1e5 more: {} B, growth {} B", a, b, b - a);
    tx.try_send(1).unwrap();
    assert_eq!(waiter.join().unwrap(), Ok(1));
    assert!(b - a < 64 * 1024, "queue memory grew by {} bytes over 1e5 clone/drop cycles", b - a);
}
