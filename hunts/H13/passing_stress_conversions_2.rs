// scratch stress 2: tasks (Stream/Sink) + conversions, hang watchdog
extern crate futures;
extern crate multiqueue2 as mq;

use futures::{Future, Sink, Stream};
use std::sync::atomic::{AtomicUsize, Ordering};
use std::sync::Arc;
use std::thread;
use std::time::{Duration, Instant};

static PROGRESS: AtomicUsize = AtomicUsize::new(0);

fn watchdog(done: Arc<AtomicUsize>, what: &'static str) {
    thread::spawn(move || {
        let mut last = PROGRESS.load(Ordering::SeqCst);
        let mut t = Instant::now();
        loop {
            thread::sleep(Duration::from_millis(200));
            if done.load(Ordering::SeqCst) != 0 {
                return;
            }
            let p = PROGRESS.load(Ordering::SeqCst);
            if p != last {
                last = p;
                t = Instant::now();
            } else if t.elapsed() > Duration::from_secs(60) {
                eprintln!("HANG in {} at progress {}", what, p);
                std::process::exit(3);
            }
        }
    });
}

// broadcast futures: sender is a Sink task; stream A is polled as a Stream and
// converted all the time; stream B is a plain multi consumer pair polled as Streams
fn bcast(n: u64, total: usize) {
    let (tx, rx) = mq::broadcast_fut_queue_with::<usize>(n, 1, 1);
    let b = rx.add_stream();
    let b2 = b.clone();
    let mut hs = vec![];
    hs.push(thread::spawn(move || {
        let mut tx = tx;
        for i in 0..total {
            tx = tx.send(i).wait().unwrap();
            PROGRESS.fetch_add(1, Ordering::SeqCst);
        }
    }));
    let cnt = Arc::new(AtomicUsize::new(0));
    for s in vec![b, b2] {
        let cnt = cnt.clone();
        hs.push(thread::spawn(move || {
            for v in s.wait() {
                v.unwrap();
                cnt.fetch_add(1, Ordering::SeqCst);
                PROGRESS.fetch_add(1, Ordering::SeqCst);
            }
        }));
    }
    let mut next = 0usize;
    let mut m = rx;
    let mut step = 0;
    'outer: loop {
        step += 1;
        // as multi stream in a task
        let mut w = m.wait();
        for _ in 0..(step % 3) {
            match w.next() {
                Some(Ok(v)) => {
                    assert_eq!(v, next);
                    next += 1;
                }
                Some(Err(())) => panic!(),
                None => break 'outer,
            }
        }
        m = w.into_inner();
        let u = m.into_single(|v: &usize| *v).ok().unwrap();
        let mut w = u.wait();
        for _ in 0..(step % 4) {
            match w.next() {
                Some(Ok(v)) => {
                    assert_eq!(v, next);
                    next += 1;
                }
                Some(Err(())) => panic!(),
                None => break 'outer,
            }
        }
        let u = w.into_inner();
        let u2 = u.transform_operation(|v: &usize| *v + 5);
        let extra = u2.add_stream_with(|v: &usize| *v);
        let mut w = u2.wait();
        for _ in 0..(step % 2) {
            match w.next() {
                Some(Ok(v)) => {
                    assert_eq!(v, next + 5);
                    next += 1;
                }
                Some(Err(())) => panic!(),
                None => break 'outer,
            }
        }
        drop(extra);
        m = w.into_inner().into_multi();
        PROGRESS.fetch_add(1, Ordering::SeqCst);
    }
    for h in hs {
        h.join().unwrap();
    }
    assert_eq!(next, total);
    assert_eq!(cnt.load(Ordering::SeqCst), total);
}

#[test]
fn bcast_tasks() {
    let done = Arc::new(AtomicUsize::new(0));
    watchdog(done.clone(), "bcast_tasks");
    for _ in 0..20 {
        for &n in &[1u64, 2, 4] {
            bcast(n, 2000);
        }
    }
    done.store(1, Ordering::SeqCst);
}

fn mpmc(n: u64, total: usize) {
    let (tx, rx) = mq::mpmc_fut_queue::<usize>(n);
    let tx2 = tx.clone();
    let mut hs = vec![];
    for (k, tx) in vec![tx, tx2].into_iter().enumerate() {
        hs.push(thread::spawn(move || {
            let mut tx = tx;
            let mut i = k;
            while i < total {
                tx = tx.send(i).wait().unwrap();
                PROGRESS.fetch_add(1, Ordering::SeqCst);
                i += 2;
            }
        }));
    }
    let mut got = vec![];
    let mut m = rx;
    let mut step = 0;
    'outer: loop {
        step += 1;
        let c = m.clone();
        let mut w = c.wait();
        for _ in 0..(step % 3) {
            match w.next() {
                Some(Ok(v)) => got.push(v),
                Some(Err(())) => panic!(),
                None => break 'outer,
            }
        }
        drop(w);
        let u = m.into_single(|v: &usize| *v).ok().unwrap();
        let mut w = u.wait();
        for _ in 0..(step % 4) {
            match w.next() {
                Some(Ok(v)) => got.push(v),
                Some(Err(())) => panic!(),
                None => break 'outer,
            }
        }
        let u = w.into_inner();
        let u2 = u.transform_operation(|v: &usize| *v + 5);
        let mut w = u2.wait();
        for _ in 0..(step % 2) {
            match w.next() {
                Some(Ok(v)) => got.push(v - 5),
                Some(Err(())) => panic!(),
                None => break 'outer,
            }
        }
        m = w.into_inner().into_multi();
        PROGRESS.fetch_add(1, Ordering::SeqCst);
    }
    for h in hs {
        h.join().unwrap();
    }
    got.sort();
    assert_eq!(got.len(), total);
    for (i, v) in got.iter().enumerate() {
        assert_eq!(i, *v);
    }
}

#[test]
fn mpmc_tasks() {
    let done = Arc::new(AtomicUsize::new(0));
    watchdog(done.clone(), "mpmc_tasks");
    for _ in 0..20 {
        for &n in &[1u64, 2, 4] {
            mpmc(n, 2000);
        }
    }
    done.store(1, Ordering::SeqCst);
}

// plain queues, blocking waits, uni receivers with views and iterators
fn plain(n: u64, total: usize) {
    let (tx, rx) = mq::broadcast_queue::<usize>(n);
    let b = rx.add_stream();
    let mut hs = vec![];
    hs.push(thread::spawn(move || {
        for i in 0..total {
            while tx.try_send(i).is_err() {
                thread::yield_now();
            }
            PROGRESS.fetch_add(1, Ordering::SeqCst);
        }
    }));
    hs.push(thread::spawn(move || {
        let u = b.into_single().ok().unwrap();
        let mut next = 0;
        for v in u.iter_with(|v| *v) {
            assert_eq!(v, next);
            next += 1;
            PROGRESS.fetch_add(1, Ordering::SeqCst);
        }
        assert_eq!(next, total);
    }));
    let mut next = 0;
    let mut m = rx;
    let mut step = 0;
    'outer: loop {
        step += 1;
        let c = m.clone();
        for _ in 0..(step % 3) {
            match c.recv() {
                Ok(v) => {
                    assert_eq!(v, next);
                    next += 1
                }
                Err(_) => break 'outer,
            }
        }
        let m2 = m.into_single().err().unwrap();
        drop(c);
        let u = m2.into_single().ok().unwrap();
        for _ in 0..(step % 4) {
            match u.recv_view(|v| *v) {
                Ok(v) => {
                    assert_eq!(v, next);
                    next += 1
                }
                Err(_) => break 'outer,
            }
        }
        for v in u.try_iter_with(|v| *v) {
            assert_eq!(v, next);
            next += 1
        }
        for v in &u {
            assert_eq!(v, next);
            next += 1
        }
        m = u.into_multi();
        PROGRESS.fetch_add(1, Ordering::SeqCst);
    }
    for h in hs {
        h.join().unwrap();
    }
    assert_eq!(next, total);
}

#[test]
fn plain_blocking() {
    let done = Arc::new(AtomicUsize::new(0));
    watchdog(done.clone(), "plain_blocking");
    for _ in 0..20 {
        for &n in &[1u64, 2, 4] {
            plain(n, 3000);
        }
    }
    done.store(1, Ordering::SeqCst);
}
