// scratch stress: conversions under traffic
extern crate futures;
extern crate multiqueue2 as mq;

use futures::{Future, Sink, Stream};
use std::sync::atomic::{AtomicIsize, AtomicUsize, Ordering};
use std::sync::mpsc::{TryRecvError, TrySendError};
use std::sync::Arc;
use std::thread;

static LIVE: AtomicIsize = AtomicIsize::new(0);
static BAD: AtomicUsize = AtomicUsize::new(0);

const MAGIC: usize = 0xA5A5_5A5A_1234_4321;

struct P {
    b: Box<[usize; 3]>,
}
impl P {
    fn new(id: usize) -> P {
        LIVE.fetch_add(1, Ordering::SeqCst);
        P {
            b: Box::new([id, MAGIC, !id]),
        }
    }
    fn id(&self) -> usize {
        if self.b[1] != MAGIC || self.b[2] != !self.b[0] {
            BAD.fetch_add(1, Ordering::SeqCst);
            panic!("corrupt payload {:x} {:x} {:x}", self.b[0], self.b[1], self.b[2]);
        }
        self.b[0]
    }
}
impl Clone for P {
    fn clone(&self) -> P {
        let id = self.id();
        thread::yield_now();
        let id2 = self.id();
        assert_eq!(id, id2);
        P::new(id)
    }
}
impl Drop for P {
    fn drop(&mut self) {
        if self.b[1] != MAGIC {
            BAD.fetch_add(1, Ordering::SeqCst);
        }
        self.b[1] = 0xDEAD;
        LIVE.fetch_sub(1, Ordering::SeqCst);
    }
}

fn bcast_fut(n: u64, total: usize, nsend: usize) {
    let (tx, rx) = mq::broadcast_fut_queue_with::<P>(n, 2, 2);
    let other = rx.add_stream();
    let mut hs = vec![];
    for s in 0..nsend {
        let tx = tx.clone();
        hs.push(thread::spawn(move || {
            let mut i = s;
            while i < total {
                let mut v = P::new(i);
                loop {
                    match tx.try_send(v) {
                        Ok(()) => break,
                        Err(TrySendError::Full(x)) => {
                            v = x;
                            thread::yield_now()
                        }
                        Err(TrySendError::Disconnected(_)) => panic!("disc"),
                    }
                }
                i += nsend;
            }
        }));
    }
    drop(tx);
    // other stream: two consumers
    let o2 = other.clone();
    let seen = Arc::new((0..total).map(|_| AtomicUsize::new(0)).collect::<Vec<_>>());
    for o in vec![other, o2] {
        let seen = seen.clone();
        hs.push(thread::spawn(move || loop {
            match o.try_recv() {
                Ok(v) => {
                    seen[v.id()].fetch_add(1, Ordering::SeqCst);
                }
                Err(TryRecvError::Empty) => thread::yield_now(),
                Err(TryRecvError::Disconnected) => break,
            }
        }));
    }
    // main stream: conversions
    let mut got: Vec<usize> = vec![];
    let mut rx = Some(rx);
    let mut step = 0usize;
    'outer: loop {
        step += 1;
        let r = rx.take().unwrap();
        // phase 1: as multi, with a clone that comes and goes
        let c = r.clone();
        for _ in 0..(step % 3) {
            match c.try_recv() {
                Ok(v) => got.push(v.id()),
                Err(TryRecvError::Disconnected) => {
                    break 'outer;
                }
                _ => {}
            }
        }
        let r = match r.into_single(|p: &P| p.id()) {
            Ok(_) => panic!("into_single accepted with a sibling"),
            Err((_, r)) => r,
        };
        drop(c);
        let mut u = r.into_single(|p: &P| p.id()).ok().expect("refused");
        for _ in 0..(step % 4) {
            match u.try_recv() {
                Ok(v) => got.push(v),
                Err(TryRecvError::Disconnected) => break 'outer,
                _ => {}
            }
        }
        let mut u2 = u.transform_operation(|p: &P| p.id() + 1);
        for _ in 0..(step % 2) {
            match u2.try_recv() {
                Ok(v) => got.push(v - 1),
                Err(TryRecvError::Disconnected) => break 'outer,
                _ => {}
            }
        }
        // add a uni stream and drop it after one read
        {
            let mut extra = u2.add_stream_with(|p: &P| p.id());
            let _ = extra.try_recv();
        }
        let m = u2.into_multi();
        match m.try_recv() {
            Ok(v) => got.push(v.id()),
            Err(TryRecvError::Disconnected) => break 'outer,
            _ => {}
        }
        rx = Some(m);
    }
    for h in hs {
        h.join().unwrap();
    }
    if nsend == 1 {
        for (i, v) in got.iter().enumerate() {
            assert_eq!(i, *v, "main stream order");
        }
    } else {
        let mut g = got.clone();
        g.sort();
        for (i, v) in g.iter().enumerate() {
            assert_eq!(i, *v, "main stream set");
        }
    }
    assert_eq!(got.len(), total);
    for i in 0..total {
        assert_eq!(seen[i].load(Ordering::SeqCst), 1, "other stream item {}", i);
    }
}

#[test]
fn bcast_fut_conv() {
    for round in 0..30 {
        for &n in &[1u64, 2, 4] {
            for &ns in &[1usize, 2] {
                bcast_fut(n, 3000, ns);
                assert_eq!(BAD.load(Ordering::SeqCst), 0);
                assert_eq!(LIVE.load(Ordering::SeqCst), 0, "leak/double drop n={} ns={} round={}", n, ns, round);
            }
        }
    }
}

fn mpmc_fut(n: u64, total: usize, nsend: usize) {
    let (tx, rx) = mq::mpmc_fut_queue::<P>(n);
    let mut hs = vec![];
    for s in 0..nsend {
        let tx = tx.clone();
        hs.push(thread::spawn(move || {
            let mut i = s;
            let mut tx = tx;
            while i < total {
                if i % 7 == 0 {
                    tx = tx.send(P::new(i)).wait().unwrap();
                } else {
                    let mut v = P::new(i);
                    loop {
                        match tx.try_send(v) {
                            Ok(()) => break,
                            Err(TrySendError::Full(x)) => {
                                v = x;
                                thread::yield_now()
                            }
                            Err(TrySendError::Disconnected(_)) => panic!("disc"),
                        }
                    }
                }
                i += nsend;
            }
        }));
    }
    drop(tx);
    let mut got: Vec<usize> = vec![];
    let mut rx = Some(rx);
    let mut step = 0usize;
    'outer: loop {
        step += 1;
        let r = rx.take().unwrap();
        let c = r.clone();
        for _ in 0..(step % 3) {
            match c.try_recv() {
                Ok(v) => got.push(v.id()),
                Err(TryRecvError::Disconnected) => {
                    break 'outer;
                }
                _ => {}
            }
        }
        let r = match r.into_single(|p: &P| p.id()) {
            Ok(_) => panic!("into_single accepted with a sibling"),
            Err((_, r)) => r,
        };
        drop(c);
        let mut u = r.into_single(|p: &P| p.id()).ok().expect("refused");
        for _ in 0..(step % 4) {
            match u.try_recv() {
                Ok(v) => got.push(v),
                Err(TryRecvError::Disconnected) => break 'outer,
                _ => {}
            }
        }
        let mut u2 = u.transform_operation(|p: &P| p.id() + 1);
        for _ in 0..(step % 2) {
            match u2.try_recv() {
                Ok(v) => got.push(v - 1),
                Err(TryRecvError::Disconnected) => break 'outer,
                _ => {}
            }
        }
        let m = u2.into_multi();
        match m.try_recv() {
            Ok(v) => got.push(v.id()),
            Err(TryRecvError::Disconnected) => break 'outer,
            _ => {}
        }
        rx = Some(m);
    }
    for h in hs {
        h.join().unwrap();
    }
    if nsend == 1 {
        for (i, v) in got.iter().enumerate() {
            assert_eq!(i, *v, "main stream order");
        }
    } else {
        let mut g = got.clone();
        g.sort();
        for (i, v) in g.iter().enumerate() {
            assert_eq!(i, *v, "main stream set");
        }
    }
    assert_eq!(got.len(), total);
}

#[test]
fn mpmc_fut_conv() {
    for round in 0..30 {
        for &n in &[1u64, 2, 4] {
            for &ns in &[1usize, 2] {
                mpmc_fut(n, 3000, ns);
                assert_eq!(BAD.load(Ordering::SeqCst), 0);
                assert_eq!(LIVE.load(Ordering::SeqCst), 0, "leak/double drop n={} ns={} round={}", n, ns, round);
            }
        }
    }
}
