// C14 violation: a Sink task that was refused (NotReady) because a consumer of a
// shared stream held a slot pinned during a (slow) clone is never notified when
// that consumer got there through the direct, blocking recv() of the futures
// receiver: recv() releases the pin, finds the stream empty and then waits inside
// FutWait::wait() without ever telling the parked senders.  The sender stays parked
// forever although a retry of start_send would succeed at once (and would in turn
// let the blocked recv() return).
extern crate futures;
extern crate multiqueue2 as multiqueue;

use futures::executor::{self, Notify};
use futures::{AsyncSink, Sink};

use std::sync::atomic::{AtomicBool, AtomicUsize, Ordering};
use std::sync::mpsc::channel;
use std::sync::Arc;
use std::thread;
use std::time::{Duration, Instant};

struct Gate {
    armed: AtomicBool,
    entered: AtomicBool,
    release: AtomicBool,
}

struct V {
    id: usize,
    gate: Arc<Gate>,
}

impl Clone for V {
    fn clone(&self) -> V {
        // the first clone after arming takes "arbitrarily long"
        if self.gate.armed.swap(false, Ordering::SeqCst) {
            self.gate.entered.store(true, Ordering::SeqCst);
            while !self.gate.release.load(Ordering::SeqCst) {
                thread::yield_now();
            }
        }
        V {
            id: self.id,
            gate: self.gate.clone(),
        }
    }
}

struct Flag(AtomicUsize);

impl Notify for Flag {
    fn notify(&self, _id: usize) {
        self.0.fetch_add(1, Ordering::SeqCst);
    }
}

fn scenario(spins: Option<(usize, usize)>, b_blocks_too: bool) {
    let gate = Arc::new(Gate {
        armed: AtomicBool::new(false),
        entered: AtomicBool::new(false),
        release: AtomicBool::new(false),
    });
    let (tx, rx_a) = match spins {
        Some((a, b)) => multiqueue::broadcast_fut_queue_with::<V>(1, a, b),
        None => multiqueue::broadcast_fut_queue::<V>(1),
    };
    // two handles on the SAME stream
    let rx_b = rx_a.clone();

    let woken = Arc::new(Flag(AtomicUsize::new(0)));
    let mut sink = executor::spawn(tx);

    // value 0 goes in
    match sink
        .start_send_notify(V { id: 0, gate: gate.clone() }, &woken, 0)
        .ok()
        .unwrap()
    {
        AsyncSink::Ready => {}
        AsyncSink::NotReady(_) => panic!("setup: first send refused"),
    }

    // consumer A: a plain thread using the direct recv() of the futures receiver
    gate.armed.store(true, Ordering::SeqCst);
    let (done_tx, done_rx) = channel();
    let a = thread::spawn(move || {
        let got = rx_a.recv().map(|v| v.id);
        let _ = done_tx.send(got.clone());
        // keep the handle alive: dropping it would notify the senders
        (rx_a, got)
    });
    while !gate.entered.load(Ordering::SeqCst) {
        thread::yield_now();
    }
    // A is now inside V::clone for value 0, slot 0 pinned

    // consumer B (same stream) takes value 0 through a direct method
    let (b_tx, b_rx) = channel();
    let rx_b = if b_blocks_too {
        // B is a thread too: recv() -> value 0, then recv() again, which blocks
        // (the stream is empty) - every party now waits for the sender
        let b = thread::spawn(move || {
            let first = rx_b.recv().map(|v| v.id);
            b_tx.send(first).unwrap();
            let second = rx_b.recv().map(|v| v.id);
            let _ = b_tx.send(second);
            rx_b
        });
        assert_eq!(b_rx.recv().unwrap().ok(), Some(0));
        // give B time to get into its second recv()
        thread::sleep(Duration::from_millis(50));
        Err(b)
    } else {
        assert_eq!(rx_b.try_recv().map(|v| v.id).ok(), Some(0));
        Ok(rx_b)
    };

    // the queue is empty now, but the slot is still pinned by A: the sender is refused
    match sink
        .start_send_notify(V { id: 1, gate: gate.clone() }, &woken, 0)
        .ok()
        .unwrap()
    {
        AsyncSink::NotReady(_) => {}
        AsyncSink::Ready => panic!("setup: second send was not refused"),
    }
    assert_eq!(woken.0.load(Ordering::SeqCst), 0);

    // A's clone ends: the pin is released, A lost the race for value 0, retries,
    // finds the stream empty and blocks inside recv()
    gate.release.store(true, Ordering::SeqCst);

    // the condition the sender waits for has changed; it must be notified
    let start = Instant::now();
    while woken.0.load(Ordering::SeqCst) == 0 && start.elapsed() < Duration::from_secs(3) {
        thread::sleep(Duration::from_millis(10));
    }
    let notified = woken.0.load(Ordering::SeqCst) != 0;
    let a_returned_early = done_rx.try_recv().is_ok();

    // show that the queue could make progress: an un-notified retry succeeds and
    // unblocks A
    let retry_ready = match sink
        .start_send_notify(V { id: 1, gate: gate.clone() }, &woken, 0)
        .ok()
        .unwrap()
    {
        AsyncSink::Ready => true,
        AsyncSink::NotReady(_) => false,
    };
    // the value goes to whichever blocked consumer of the shared stream gets it
    let mut a_result = None;
    let mut b_result = None;
    let start = Instant::now();
    while a_result.is_none() && b_result.is_none() && start.elapsed() < Duration::from_secs(3) {
        a_result = done_rx.try_recv().ok();
        b_result = b_rx.try_recv().ok();
        thread::sleep(Duration::from_millis(5));
    }
    println!(
        "sender_notified={} a_returned_before_retry={} unnotified_retry_ready={} \
         after_retry: a.recv()={:?} b.recv()={:?}",
        notified, a_returned_early, retry_ready, a_result, b_result
    );
    // let everything wind down: with the sender gone the blocked recv()s return
    drop(sink);
    let _ = a.join();
    if let Err(b) = rx_b {
        let _ = b.join();
    }
    assert!(
        notified,
        "C14: the sink task parked on a pinned slot was never notified after the pin was \
         released by a consumer that went through the direct recv(); an un-notified retry \
         succeeded: {}, and then unblocked a consumer: a={:?} b={:?}",
        retry_ready, a_result, b_result
    );
}

#[test]
fn parked_sender_lost_wakeup_direct_recv_zero_spins() {
    scenario(Some((0, 0)), false);
}

#[test]
fn parked_sender_lost_wakeup_direct_recv_default_spins() {
    scenario(None, false);
}

#[test]
fn parked_sender_lost_wakeup_everyone_blocked() {
    // A and B both sit in a direct recv(), the only sender is parked: global deadlock
    scenario(Some((0, 0)), true);
}
