extern crate futures;
extern crate multiqueue2 as multiqueue;

use futures::executor::{self, Notify};
use futures::{Async, AsyncSink, Sink, Stream};
use std::sync::atomic::{AtomicUsize, Ordering};
use std::sync::mpsc::{TryRecvError, TrySendError};
use std::sync::Arc;

struct Flag(AtomicUsize);
impl Notify for Flag {
    fn notify(&self, _id: usize) {
        self.0.fetch_add(1, Ordering::SeqCst);
    }
}
fn flag() -> Arc<Flag> {
    Arc::new(Flag(AtomicUsize::new(0)))
}

fn is_disc<T>(r: Result<(), TrySendError<T>>) -> bool {
    match r {
        Err(TrySendError::Disconnected(_)) => true,
        _ => false,
    }
}

#[test]
fn c13_plain_orders() {
    for cap in [0u64, 1, 2, 3, 4, 5, 8] {
        for queued in 0..=(cap.max(1).next_power_of_two() as usize) {
            // mpmc: several handles on the one stream
            let (tx, rx) = multiqueue::mpmc_queue::<usize>(cap);
            let tx2 = tx.clone();
            let rx2 = rx.clone();
            let rx3 = rx2.clone();
            for i in 0..queued {
                tx.try_send(i).unwrap();
            }
            drop(rx2);
            drop(rx);
            assert!(!is_disc(tx.try_send(99)) || true);
            drop(rx3);
            assert!(is_disc(tx.try_send(1)), "mpmc cap {} queued {}", cap, queued);
            assert!(is_disc(tx2.try_send(1)));
            let tx3 = tx2.clone();
            assert!(is_disc(tx3.try_send(1)));
            drop(tx);
            drop(tx2);
            assert!(is_disc(tx3.try_send(1)));

            // broadcast several streams, several handles
            let (tx, rx) = multiqueue::broadcast_queue::<usize>(cap);
            let s2 = rx.add_stream();
            let s2b = s2.clone();
            let s3 = s2.add_stream().into_single().unwrap();
            for i in 0..queued {
                tx.try_send(i).unwrap();
            }
            let _ = s2.try_recv();
            drop(s3);
            drop(rx);
            drop(s2);
            drop(s2b);
            assert!(is_disc(tx.try_send(1)), "bcast cap {} queued {}", cap, queued);
            let t2 = tx.clone();
            assert!(is_disc(t2.try_send(1)));
            assert!(is_disc(tx.try_send(1)));
        }
    }
}

#[test]
fn c13_fut_orders() {
    for cap in [0u64, 1, 2, 3, 4] {
        for queued in 0..=(cap.max(1).next_power_of_two() as usize) {
            let (tx, rx) = multiqueue::broadcast_fut_queue_with::<usize>(cap, 0, 0);
            let s2 = rx.add_stream();
            let s2b = s2.clone();
            let s3 = match s2.add_stream().into_single(|x: &usize| *x) {
                Ok(s) => s,
                Err(_) => panic!(),
            };
            let s4 = s3.add_stream_with(|x: &usize| *x + 1);
            let s5 = s4.into_multi();
            let f = flag();
            let mut sink = executor::spawn(tx.clone());
            for i in 0..queued {
                assert!(sink.start_send_notify(i, &f, 0).unwrap().is_ready());
            }
            // fill up and park
            let full = (cap.max(1).next_power_of_two() as usize) == queued;
            if full {
                assert!(!sink.start_send_notify(77, &f, 0).unwrap().is_ready());
            }
            drop(s3);
            drop(s5);
            drop(rx);
            drop(s2);
            let before = f.0.load(Ordering::SeqCst);
            drop(s2b);
            if full {
                assert!(f.0.load(Ordering::SeqCst) > 0, "parked sender not woken; before {}", before);
            }
            assert!(sink.start_send_notify(5, &f, 0).is_err(), "cap {} queued {}", cap, queued);
            assert!(is_disc(tx.try_send(1)));

            // mpmc fut
            let (tx, rx) = multiqueue::mpmc_fut_queue::<usize>(cap);
            let rx2 = rx.clone();
            let f = flag();
            let mut sink = executor::spawn(tx.clone());
            for i in 0..queued {
                assert!(sink.start_send_notify(i, &f, 0).unwrap().is_ready());
            }
            if full {
                assert!(!sink.start_send_notify(77, &f, 0).unwrap().is_ready());
            }
            let u = match rx.into_single(|x: &usize| *x) {
                Ok(_) => panic!("two handles"),
                Err((_, r)) => r,
            };
            drop(rx2);
            let u = match u.into_single(|x: &usize| *x) {
                Ok(u) => u,
                Err(_) => panic!("one handle"),
            };
            let u = u.transform_operation(|x: &usize| *x * 2);
            let m = u.into_multi();
            let c = f.0.load(Ordering::SeqCst);
            drop(m);
            if full {
                assert!(f.0.load(Ordering::SeqCst) > 0, "mpmc parked sender not woken {}", c);
            }
            assert!(sink.start_send_notify(5, &f, 0).is_err());
            assert!(is_disc(tx.try_send(1)));
        }
    }
}

#[test]
fn c15_sequential_mix() {
    for cap in [0u64, 1, 2, 3, 4, 7] {
        let real = cap.max(1).next_power_of_two() as usize;
        let (tx, rx) = multiqueue::mpmc_fut_queue::<usize>(cap);
        let f = flag();
        let g = flag();
        let mut sink = executor::spawn(tx);
        let mut stream = executor::spawn(rx);
        // fresh empty queue
        assert_eq!(stream.poll_stream_notify(&g, 0), Ok(Async::NotReady));
        assert_eq!(stream.get_ref().try_recv(), Err(TryRecvError::Empty));
        let mut next = 0usize;
        let mut expect = 0usize;
        for round in 0..50 {
            // fill
            loop {
                match sink.start_send_notify(next, &f, 0).unwrap() {
                    AsyncSink::Ready => next += 1,
                    AsyncSink::NotReady(v) => {
                        assert_eq!(v, next);
                        break;
                    }
                }
            }
            assert_eq!(next - expect, real, "capacity rule");
            assert!(sink.poll_flush_notify(&f, 0).unwrap().is_ready());
            // drain alternating
            let mut k = 0;
            loop {
                k += 1;
                let got = if (k + round) % 3 == 0 {
                    match stream.get_ref().try_recv() {
                        Ok(v) => Some(v),
                        Err(TryRecvError::Empty) => None,
                        Err(e) => panic!("{:?}", e),
                    }
                } else if (k + round) % 3 == 1 && expect < next {
                    Some(stream.get_ref().recv().unwrap())
                } else {
                    match stream.poll_stream_notify(&g, 0).unwrap() {
                        Async::Ready(Some(v)) => Some(v),
                        Async::Ready(None) => panic!("early end"),
                        Async::NotReady => None,
                    }
                };
                match got {
                    Some(v) => {
                        assert_eq!(v, expect);
                        expect += 1;
                    }
                    None => {
                        assert_eq!(expect, next);
                        break;
                    }
                }
                if round % 2 == 1 && expect + 1 == next {
                    break;
                }
            }
        }
        // end of stream
        loop {
            match sink.start_send_notify(next, &f, 0).unwrap() {
                AsyncSink::Ready => next += 1,
                AsyncSink::NotReady(_) => break,
            }
        }
        drop(sink);
        while expect < next {
            match stream.poll_stream_notify(&g, 0).unwrap() {
                Async::Ready(Some(v)) => {
                    assert_eq!(v, expect);
                    expect += 1
                }
                other => panic!("{:?}", other),
            }
        }
        for _ in 0..5 {
            assert_eq!(stream.poll_stream_notify(&g, 0), Ok(Async::Ready(None)));
            assert_eq!(stream.get_ref().try_recv(), Err(TryRecvError::Disconnected));
            assert!(stream.get_ref().recv().is_err());
        }
    }
}

#[test]
fn c15_uni_and_streams() {
    for cap in [1u64, 2, 4] {
        let real = cap as usize;
        let (tx, rx) = multiqueue::broadcast_fut_queue::<usize>(cap);
        let rx_b = rx.add_stream();
        let uni = match rx_b.add_stream().into_single(|x: &usize| *x + 100) {
            Ok(u) => u,
            Err(_) => panic!(),
        };
        let f = flag();
        let g = flag();
        let mut sink = executor::spawn(tx);
        let mut s1 = executor::spawn(rx);
        let mut s2 = executor::spawn(rx_b);
        let mut s3 = executor::spawn(uni);
        assert_eq!(s3.poll_stream_notify(&g, 0), Ok(Async::NotReady));
        assert_eq!(s3.get_mut().try_recv(), Err(TryRecvError::Empty));
        let mut next = 0;
        let mut e = [0usize; 3];
        for round in 0..40 {
            loop {
                match sink.start_send_notify(next, &f, 0).unwrap() {
                    AsyncSink::Ready => next += 1,
                    AsyncSink::NotReady(v) => {
                        assert_eq!(v, next);
                        break;
                    }
                }
            }
            let min = *e.iter().min().unwrap();
            assert_eq!(next - min, real);
            // each stream consumes a varying amount
            let n1 = 1 + round % real.max(1);
            for _ in 0..n1 {
                if e[0] < next {
                    assert_eq!(s1.poll_stream_notify(&g, 0), Ok(Async::Ready(Some(e[0]))));
                    e[0] += 1;
                }
            }
            while e[1] < next {
                assert_eq!(s2.get_ref().try_recv(), Ok(e[1]));
                e[1] += 1;
            }
            assert_eq!(s2.poll_stream_notify(&g, 0), Ok(Async::NotReady));
            while e[2] < next {
                if e[2] % 2 == 0 {
                    assert_eq!(s3.poll_stream_notify(&g, 0), Ok(Async::Ready(Some(e[2] + 100))));
                } else {
                    assert_eq!(s3.get_mut().recv(), Ok(e[2] + 100));
                }
                e[2] += 1;
            }
            assert_eq!(s3.get_mut().try_recv(), Err(TryRecvError::Empty));
        }
        drop(sink);
        while e[0] < next {
            assert_eq!(s1.poll_stream_notify(&g, 0), Ok(Async::Ready(Some(e[0]))));
            e[0] += 1;
        }
        assert_eq!(s1.poll_stream_notify(&g, 0), Ok(Async::Ready(None)));
        assert_eq!(s2.poll_stream_notify(&g, 0), Ok(Async::Ready(None)));
        assert_eq!(s3.poll_stream_notify(&g, 0), Ok(Async::Ready(None)));
        assert_eq!(s3.get_mut().try_recv(), Err(TryRecvError::Disconnected));
        assert!(s3.get_mut().recv().is_err());
        assert_eq!(s3.poll_stream_notify(&g, 0), Ok(Async::Ready(None)));
    }
}
