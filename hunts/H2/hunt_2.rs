// MPMCFutUniReceiver::add_stream_with subscribes a SECOND stream on an mpmc queue.
// The mpmc flavour moves values out (ptr::read) / drops them in place after a view,
// so with two streams every value is delivered twice and dropped twice.
extern crate futures;
extern crate multiqueue2 as multiqueue;

use std::sync::atomic::{AtomicUsize, Ordering};

static DROPS: AtomicUsize = AtomicUsize::new(0);

struct D(usize);

impl Drop for D {
    fn drop(&mut self) {
        DROPS.fetch_add(1, Ordering::SeqCst);
    }
}

#[test]
fn mpmc_fut_uni_add_stream_with_delivers_and_drops_twice() {
    let (tx, rx) = multiqueue::mpmc_fut_queue::<D>(4);
    let mut r1 = match rx.into_single(|d: &D| d.0) {
        Ok(r) => r,
        Err(_) => panic!("into_single"),
    };
    let mut r2 = r1.add_stream_with(|d: &D| d.0);
    tx.try_send(D(7)).ok().unwrap();
    let a = r1.try_recv();
    let b = r2.try_recv();
    println!("r1 got {:?}, r2 got {:?}, drops of the single value sent: {}", a, b, DROPS.load(Ordering::SeqCst));
    drop(tx);
    drop(r1);
    drop(r2);
    let drops = DROPS.load(Ordering::SeqCst);
    assert_eq!(
        drops, 1,
        "one value was sent through an mpmc queue but it was delivered to {:?} and {:?} and dropped {} times",
        a, b, drops
    );
}
