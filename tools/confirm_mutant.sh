#!/bin/bash
# confirm_mutant.sh <worktree> <patch> <demo.rs> : in a scratch worktree, confirm that with the patch the crate's
# own tests pass and the demo fails, and that without it the demo passes. Prints one summary line.
wt=$1; patch=$2; demo=$3
export CARGO_TARGET_DIR=$wt/target CARGO_NET_OFFLINE=true
cd $wt || exit 2
git checkout -q -- src; rm -f tests/demo_confirm.rs
git apply $patch || { echo "CONFIRM $patch: patch does not apply"; exit 2; }
t1=$(timeout 1200 cargo test --offline 2>&1 | grep -E "^test result|FAILED|panicked" | tr '\n' ' ')
suite_ok=no; echo "$t1" | grep -q "FAILED\|failed; [1-9]" || suite_ok=yes
cp $demo tests/demo_confirm.rs
d1=$(timeout 600 cargo test --offline --test demo_confirm 2>&1 | tail -5 | tr '\n' ' '); rc1=$?
timeout 600 cargo test --offline --test demo_confirm >/dev/null 2>&1; rc1=$?
git checkout -q -- src
timeout 600 cargo test --offline --test demo_confirm >/dev/null 2>&1; rc0=$?
rm -f tests/demo_confirm.rs
echo "CONFIRM $patch: suite_with_patch_ok=$suite_ok demo_with_patch_rc=$rc1 (want !=0) demo_without_patch_rc=$rc0 (want 0)"
echo "  suite: $t1" | cut -c1-400
