#!/usr/bin/env python3
"""Apply every seeded change in /verif/seeded to /repo in turn, run the checks recorded as catching it,
undo it, and report which still fire. /repo must be clean; nothing else may use /repo meanwhile."""
import json, os, subprocess, sys
os.chdir('/verif')
assert subprocess.run(['git', '-C', '/repo', 'diff', '--quiet']).returncode == 0, '/repo dirty'
rows = []
only = sys.argv[1:]
for name in sorted(os.listdir('seeded')):
    if only and not any(o in name for o in only):
        continue
    d = os.path.join('seeded', name)
    if not os.path.isdir(d):
        continue
    meta = json.load(open(os.path.join(d, 'meta.json')))
    r = subprocess.run(['git', '-C', '/repo', 'apply', os.path.abspath(os.path.join(d, 'patch.diff'))])
    if r.returncode != 0:
        rows.append((name, 'PATCH DOES NOT APPLY', ''))
        subprocess.run(['git', '-C', '/repo', 'checkout', '--', '.'])
        continue
    res = []
    for c in meta['caught_by_checks']:
        prop, tier = c.split()
        p = subprocess.run(['./check', prop, tier], capture_output=True, text=True)
        sigs = sorted({l.split('signature: ')[1] for l in p.stdout.splitlines() if 'signature: ' in l})
        res.append('%s %s rc=%d%s' % (prop, tier, p.returncode, (' [' + sigs[0][:70] + (', +%d' % (len(sigs) - 1) if len(sigs) > 1 else '') + ']') if sigs else ''))
    own = meta['breaks_property'] + ' quick'
    if own not in meta['caught_by_checks'] and os.environ.get('SEED_OWN', '1') == '1':
        p = subprocess.run(['./check', meta['breaks_property'], 'quick'], capture_output=True, text=True)
        res.append('(own property: %s rc=%d)' % (own, p.returncode))
    subprocess.run(['git', '-C', '/repo', 'checkout', '--', '.'])
    ok = all(' rc=1' in x for x in res if not x.startswith('(own'))
    rows.append((name, 'caught' if ok else 'NOT CAUGHT BY ALL', '; '.join(res)))
    print(rows[-1], flush=True)
# a filtered run updates its rows and keeps the others
allrows = rows
if only and os.path.exists('/verif/seeded/REGRESSION.json'):
    prev = {r[0]: r for r in json.load(open('/verif/seeded/REGRESSION.json'))}
    prev.update({r[0]: list(r) for r in rows})
    allrows = [prev[k] for k in sorted(prev)]
json.dump(allrows, open('/verif/seeded/REGRESSION.json', 'w'), indent=1)
# leave the evidence of the unchanged tree behind
if os.environ.get('SEED_REFRESH', '1') == '1':
    for p in sorted({c.split()[0] for r in rows for c in r[2].replace('(own property: ', '').split('; ') if c[:1] == 'C'}):
        subprocess.run(['./check', p, 'quick'], capture_output=True, text=True)
bad = [r for r in rows if r[1] != 'caught']
print('%d seeds, %d not caught as recorded' % (len(rows), len(bad)))
sys.exit(1 if bad else 0)
