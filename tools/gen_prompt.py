#!/usr/bin/env python3
"""Writes the prompt given to a fresh sub-agent asked for property-breaking changes.

usage: gen_prompt.py <PROP> <worktree> [focus text]

The prompt contains only the property's text, the worktree's path and one-line
descriptions (site, not mechanism details) of changes already collected for
that property, so that a new round looks elsewhere. Nothing from /verif's
machinery is mentioned."""
import json, os, re, sys

prop, wt = sys.argv[1], sys.argv[2]
focus = sys.argv[3] if len(sys.argv) > 3 else ""
props = {}
for line in open("/verif/properties.jsonl"):
    p = json.loads(line)
    props[p["id"]] = p
P = props[prop]

prev = []
for d in sorted(os.listdir("/verif/seeded")):
    mp = f"/verif/seeded/{d}/meta.json"
    if not os.path.isfile(mp):
        continue
    m = json.load(open(mp))
    if m.get("breaks_property") != prop:
        continue
    files, funcs = set(), []
    for l in open(f"/verif/seeded/{d}/patch.diff"):
        if l.startswith("+++ b/"):
            files.add(l[6:].strip())
        mm = re.match(r"@@ .* @@ (.*)", l)
        if mm and mm.group(1).strip() not in funcs:
            funcs.append(mm.group(1).strip())
    name = re.sub(r"^(R\d-)?C\d\d-([A-Z]-)?", "", d).replace("-", " ")
    prev.append(f"  - {name} ({', '.join(sorted(files))}; {'; '.join(funcs[:2])})")

txt = f"""You are working in a scratch git worktree of the Rust crate `multiqueue2` (a bounded lock-free MPMC broadcast queue) at {wt}. Work ONLY inside {wt}; never read or write /verif or /repo or any other directory. The sandbox has no network: always pass --offline to cargo and set CARGO_TARGET_DIR={wt}/target. Never use pkill/killall with broad patterns (other people run tests on this machine); only kill processes you started, by PID. Never use `git stash` (the stash is shared between worktrees).

A property that must always hold for this crate:

  Title: {P['title']}
  Statement: {P['statement']}
  Quantified over: {P['quantifier']['text']}

YOUR TASK: produce a small, realistic change to the crate's source (files under src/) that BREAKS this property, while the crate still compiles and the ENTIRE existing test suite still passes (run: cd {wt} && CARGO_TARGET_DIR={wt}/target cargo test --offline 2>&1 | tail -30 ; every test must pass; run it at least twice because the tests are concurrent).

The change must need something specific in order to manifest: a particular thread interleaving, a multi-step sequence of operations, an unusual input/configuration, or two cooperating sites that each look fine alone. It must NOT be something that ordinary use or the existing tests expose at once. Think of a plausible refactoring or optimisation mistake. Read the code first (src/multiqueue.rs, src/read_cursor.rs, src/countedindex.rs, src/memory.rs, src/wait.rs, src/atomicsignal.rs, src/broadcast.rs, src/mpmc.rs, src/alloc.rs, src/consume.rs) and pick a site that really affects this property.
"""
if prev:
    txt += "\nOther people already produced the following changes for this property; choose a DIFFERENT site and a different mechanism (do not re-do these, and do not merely move the same mistake to a sibling function):\n" + "\n".join(prev) + "\n"
if focus:
    txt += focus + "\n"
txt += f"""
Rules: do not modify or add anything under tests/ as part of the change (the demo is separate); do not touch src/verif_hooks.rs; do not edit, move or delete any line that is under a #[cfg(multiqueue2_verif)] or #[cfg(not(multiqueue2_verif))] attribute (those are instrumentation hooks; leave them exactly in place, but you may change the ordinary code around them). Do not only weaken a memory Ordering argument (that cannot be demonstrated on this x86 machine).

Then write a DEMONSTRATION: a standalone integration test file (e.g. {wt}/tests/demo_{prop}.rs) or small example program that FAILS with your change (assertion failure, wrong value, hang detected by a timeout, crash) and PASSES without it. It may steer the schedule with barriers, spinning, yield_now, sleeps and many iterations; a probabilistic demo is acceptable if it fails reliably within a minute with the change and never without it. Verify BOTH directions yourself (use `git diff -- src > {wt}/DELIVER/patch.diff`, `git checkout src`, `git apply`).

DELIVER in {wt}/DELIVER/ :
  - patch.diff  : `git diff -- src` of the change (and only the change)
  - demo.rs     : the demonstration, written so that copying it to tests/demo.rs and running `cargo test --offline --test demo` shows the failure (exit status != 0) with the change and success without
  - notes.md    : which site you changed and why it breaks the property; exactly what it needs in order to manifest; the commands you ran and their observed results.
If you have time, produce a second, different mutant the same way as patchB.diff + demoB.rs + a section in notes.md. Budget about 40 minutes. When done, leave the worktree with the change NOT applied (git checkout src), remove your demo files from tests/, and reply with a 5-line summary.
"""
open(f"{wt}.prompt", "w").write(txt)
print(f"{wt}.prompt", len(prev), "previous")
