#!/bin/bash
# Runs every property's thorough tier in turn, keeps a copy of each evidence file and a summary.
cd /verif; mkdir -p evidence_thorough
: > evidence_thorough/SUMMARY.txt
for p in ${@:-C19 C09 C17 C13 C15 C11 C12 C10 C16 C18 C04 C05 C07 C14 C01 C02 C03 C06 C08}; do
  s=$(date +%s)
  out=$(./check $p thorough 2>&1); rc=$?; head=$(git -C /repo rev-parse --short HEAD)
  echo "$p rc=$rc repo=$head $(($(date +%s)-s))s $(echo "$out" | tail -1)" | tee -a evidence_thorough/SUMMARY.txt
  echo "$out" | grep -E "^VIOLATION|signature|MACHINERY|KNOWN" | cut -c1-200 | head -10 >> evidence_thorough/SUMMARY.txt
  cp evidence/$p.json evidence_thorough/$p.json
  ./check $p quick > /dev/null 2>&1   # leave the quick evidence in place
done
