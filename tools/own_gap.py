#!/usr/bin/env python3
"""For seeds whose own property's quick check stays silent: does any check that catches them see a finding of the
own property in its scenarios (reported as out of scope there)? Such a finding means the own property's check
lacks that scenario set. Runs in the dev sandbox (/tmp/dev)."""
import json, os, subprocess, sys
reg = json.load(open('/tmp/REGRESSION_full.json'))
os.chdir('/tmp/dev')
for name, verdict, detail in reg:
    if '(own property:' not in detail or 'rc=0)' not in detail.split('(own property:')[1]:
        continue
    meta = json.load(open('/verif/seeded/%s/meta.json' % name))
    own = meta['breaks_property']
    r = subprocess.run(['git', '-C', '/tmp/dev/repo', 'apply', '/verif/seeded/%s/patch.diff' % name])
    if r.returncode:
        print(name, 'patch does not apply'); continue
    hits = []
    # own check first (the dev engine may be ahead of the regression run)
    p = subprocess.run(['./check', own, 'quick'], capture_output=True, text=True)
    own_rc = p.returncode
    if own_rc == 0:
        for c in meta['caught_by_checks']:
            prop, tier = c.split()
            if tier != 'quick':
                continue
            subprocess.run(['./check', prop, tier], capture_output=True, text=True)
            ev = json.load(open('/tmp/dev/evidence/%s.json' % prop))
            for o in ev['coverage'].get('out_of_scope_observations', []):
                if (o.get('property') or o.get('prop')) == own:
                    hits.append('%s sees %s @%s' % (prop, o.get('signature'), (o.get('scenarios') or ['?'])[0]))
    subprocess.run(['git', '-C', '/tmp/dev/repo', 'checkout', '--', '.'])
    print(name, 'own=%s rc=%d' % (own, own_rc), '; '.join(hits[:4]) if hits else '-', flush=True)
