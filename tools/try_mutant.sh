#!/bin/bash
# try_mutant.sh <patch> <tier> <prop>... : apply a seeded change to /repo, run the checks, undo it.
patch=$1; tier=$2; shift 2
cd /repo || exit 2
git diff --quiet || { echo "/repo has uncommitted changes"; exit 2; }
git apply "$patch" || patch -p1 --no-backup-if-mismatch < "$patch" || { echo "patch does not apply"; git checkout -- .; exit 2; }
cd /verif
for p in "$@"; do
  out=$(./check $p $tier 2>&1); rc=$?
  echo "== $p $tier rc=$rc $(echo "$out" | tail -1 | cut -c1-110)"
  echo "$out" | grep -E "^VIOLATION|signature|MACHINERY|KNOWN" | cut -c1-220 | head -12
done
git -C /repo checkout -- . ; git -C /repo status --short | head -3
