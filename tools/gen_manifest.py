#!/usr/bin/env python3-vt
"""Regenerates /verif/MANIFEST.json (and validates it against the schema)."""
import json, subprocess

E1 = ("E1 mqsched: every schedule of the listed scenarios within a deviation bound (preemptions, non-default choices at "
      "yields, spurious failures of weak compare-and-swap), depth-first over the real crate code under a baton scheduler "
      "driven through the cfg(multiqueue2_verif) hooks")
E2 = ("E2 seqmc: every single-threaded API history up to a depth bound over the handle alphabet, each step compared with "
      "the reference model and each history closed by several teardown orders, plus the deterministic long histories "
      "named in the oracle (pump, churn, population sweep)")
E3 = "E3: the complete matrix of compile probes"
BOUNDS = ("Quick explores all schedules with <=2-3 deviations (2-thread) / <=1-2 (3-4 thread; futures role matrix: 0 "
          "preemptions + 2 declined yields) and all histories to depth 5; thorough raises the bounds (up to 6 "
          "deviations, depth 7, N=4, more wait configurations, 4-thread scenarios, role-matrix pairs at N=2).")

P = {
 "C01": ("E1+E2", "exhaustive deviation-bounded schedule enumeration of the real code + history oracle; population histories against the model",
         "O-deliver: per stream, delivered ids are accepted ids, no id twice, every accepted id delivered after the post-join drain; handed-back payload is the identical instance. Judged on the base pair/trio/quad families, the role matrix (every pair and triple of 19 roles) and the C10/C11/C12 structural scenarios. E2: population histories (1..12 extra streams / consumer handles, up to 8 extra senders, one lagging stream, three leave orders) compared with the model."),
 "C02": ("E1", "exhaustive deviation-bounded schedule enumeration + order-graph oracle",
         "O-order: the union of per-consumer receive chains, per-producer send chains and real-time send edges must be acyclic; same scenario set as C01."),
 "C03": ("E1+E2", "exhaustive schedule enumeration + capacity-window oracle; exhaustive capacity pump histories",
         "O-cap: when an accepted send returns, accepted-returned sends minus receives begun on every subscribed stream is at most N; E2 pump over requested capacities 0..9 and the population histories compare every Full/Ok with the model."),
 "C04": ("E1+E2", "exhaustive schedule enumeration with a payload whose clone/view/drop bodies contain scheduling points; payload ledger on all API histories",
         "O-payload: instrumented payload with scheduling points inside Clone/view closures and Drop; slot reads/writes are scheduling points; ledger detects drop-while-borrowed, replaced-during, dead or corrupt values."),
 "C05": ("E1+E2", "exhaustive schedule enumeration of teardown races + exhaustive API histories x teardown orders with a payload ledger",
         "O-ledger: every instance dropped exactly once after the last handle goes away, for every schedule of teardown races and every history x teardown order."),
 "C06": ("E1", "exhaustive schedule enumeration + post-join probe against the reference model",
         "O-quiesce: after the join, fill-to-Full and drain-to-End probes must equal the counts the model computes from the recorded history; every execution of the base families, the role matrix and the structural scenarios ends with the probe."),
 "C07": ("E1+E2", "exhaustive schedule enumeration of last-send/drop vs receive races + disconnect oracle; population sweep of parked consumers",
         "O-disc: an end report requires every sender's drop to have begun and every accepted value to have been claimed on that stream; sticky afterwards; blocked/parked consumers must see the end; a drained stream must not answer Empty once every sender has left (also judged on the role matrix, where sender clones and drops race). E2: 1..12 stream tasks parked when the last sender leaves must all be notified and then report the end."),
 "C08": ("E1", "exhaustive schedule enumeration with modelled blocking; deadlock = no enabled thread",
         "O-hang: no terminal state with a thread blocked in recv/recv_view/iterator (condvar, or spin on unchanged memory) under busy/yielding/blocking waits with spin counts 0,1,(2,50)."),
 "C09": ("E2", "explicit enumeration of all API histories to a depth bound against a reference model, every transition executed on the real handles",
         "every return value of every call equals the reference model (log, cursor per stream, window N, sender count); no panic; calls that would block are observed as Blocked; starts after 16..20 and 24 retirements; capacity pump 0..9; the calls of the fixed handles between 100 (thorough 1000) churn cycles equal the model."),
 "C10": ("E1", "exhaustive schedule enumeration of add_stream vs wrapping producer vs sibling consumer; role matrix",
         "O-addstream: the new stream's drained sequence is a gapless suffix of the common order starting inside the parent's position interval during the call; C01/C02/C03/C06 oracles on all streams of the same executions."),
 "C11": ("E1+E2", "exhaustive schedule enumeration of handle removal vs retrying producer; role matrix; population histories and parked-sender sweep",
         "O-remove: producer retry must succeed after the removal (else hang), remaining streams keep values/backpressure (C01/C03/C06 oracles), unsubscribe truth table incl. 'exactly one true when all handles leave through unsubscribe'. E2: 1..12 streams leaving in three orders compared with the model; 1..12 sink tasks parked behind a lagging stream must be notified when it is unsubscribed or dropped."),
 "C12": ("E1+E2", "exhaustive schedule enumeration with population changes 1->2->1 mid-traffic; role matrix; churn histories against the model",
         "C01-C03 + O-quiesce oracles on executions whose threads clone/hand-off/drop sender and receiver handles and convert single<->multi between operations; E2: after every one of 100 (thorough 1000) clone/drop/convert cycles (incl. bursts with idle handles) the fixed handles' try_send/try_recv equal the model."),
 "C13": ("E1+E2", "exhaustive schedule enumeration of last-receiver drop vs send / parking sink + exhaustive histories",
         "O-send-disc: every send that starts after the last receiver's removal returned must be Disconnected / Err; a sink task must not stay parked; E2: every drop order of receivers followed by every sender call; 1..12 parked sink tasks when the last receiver leaves."),
 "C14": ("E1+E2", "exhaustive schedule enumeration of sink/stream tasks (deadlock detection) + sequential lost-wake-up oracle on all futures histories + population sweep",
         "O-hang with a deterministic futures-0.1 executor (one task per managed thread, Notify -> runtime): no terminal state with a parked task; E2: in every futures history the operation that makes progress possible for a parked (emulated) task must have notified it when it returns; 1..12 tasks parked at once (the notify path switches at 8)."),
 "C15": ("E1+E2", "exhaustive API histories of the futures handles against the model + exhaustive schedules of futures traffic",
         "O-sinkstream: NotReady hands back the identical message, no sleep/condvar/spin-wait inside poll/start_send/poll_complete, direct methods equal the model and never panic; C01-C03 oracles on futures scenarios."),
 "C16": ("E1+E2", "exhaustive schedule enumeration of stream churn at the reclamation threshold vs scanning writers, with a freed-set monitor; role matrix; freed-set monitor on all API histories",
         "O-uaf: every shim atomic access, every dereference of a reader-list pointer (each scan iteration) and every slot access is checked against the set of freed crate blocks; double/unknown frees are caught at the deallocation hook and, for any other block, by the harness allocator's quarantine."),
 "C17": ("E1+E2", "exhaustive histories x teardown orders with an allocation ledger + deterministic churn histories; zero-live-blocks check at the end of every explored schedule",
         "O-leak: zero live crate blocks and zero allocator delta after every history x teardown order and after every E1 execution of the role matrix; live bytes at plateau points of 10^2..10^5-cycle churn histories (also starting with a reclamation cycle in flight) must not grow; after the threshold-race scenarios of E1 a growth probe (2 x 16 more cycles) must find reclamation still working."),
 "C18": ("E1", "exhaustive enumeration of (schedule prefix, freeze point) pairs with a solo-run continuation",
         "O-solo: from every reachable state (others frozen at every scheduling point within the bound, including inside add_stream / unsubscribe / into_single / clone / drop) one try operation run alone must return within K of its own steps without yield/sleep/spin/lock wait."),
 "C19": ("E3", "exhaustive compile-probe matrix (bounded enumeration of programs, rustc as oracle)",
         "every well-formed cell of handle type x payload class x closure class x {Send,Sync} compiled against the guard-off crate; verdict compared with the table derived from the statement; the *_with constructors must accept a custom wait strategy exactly when it is Send + Sync."),
}
NOTE = ("Trusted: the hook shim (src/verif_hooks.rs) forwards every atomic/lock/condvar/yield/alloc operation of the crate "
        "and marks the plain accesses the protocols protect (stream list, slot values); schedules are sequentially "
        "consistent interleavings at that granularity (weaker memory orderings are not modelled); Arc counts and "
        "futures-0.1 Task internals are not scheduling points; bounds as stated in the evidence file (nothing beyond "
        "them is claimed).")
NOTE19 = "Trusted: rustc's trait solver; the table of expected verdicts is derived by hand from the statement (probes/probe.py)."

hooks = subprocess.run("git -C /repo log --format=%h --reverse --grep='^verif hooks'", shell=True, capture_output=True,
                       text=True).stdout.split()
checks = []
for pid in sorted(P):
    eng, tech, oracle = P[pid]
    parts = [x for x, k in ((E1, "E1"), (E2, "E2"), (E3, "E3")) if k in eng]
    checks.append({
        "property_id": pid,
        "quick_cmd": "./check %s quick" % pid,
        "thorough_cmd": "./check %s thorough" % pid,
        "evidence_file": "/verif/evidence/%s.json" % pid,
        "replay_cmd_template": "./check --replay {path}",
        "engine": eng,
        "level_claimed": {
            "category": "exploration" if pid == "C19" else "model_checking",
            "text": "Bounded-exhaustive: " + "; ".join(parts) + ". " + ("" if pid == "C19" else BOUNDS + " ") + "Oracle: " + oracle,
            "design_ref": "DESIGN.md section 8 (%s), sections 4-7" % pid,
        },
        "level_note": NOTE19 if pid == "C19" else NOTE,
        "technique": tech,
    })
m = {
    "version": 1,
    "setup_cmd": "cd /verif/engine && CARGO_NET_OFFLINE=true cargo build --release --offline && /verif/target/release/mqv selftest",
    "hooks": {
        "guard": "multiqueue2_verif",
        "enable": "RUSTFLAGS='--cfg multiqueue2_verif' (set in /verif/engine/.cargo/config.toml); the engine path-depends on /repo",
        "baseline_off_cmd": "cd /repo && cargo nextest run --workspace --no-fail-fast --tool-config-file pb:/w/lib/nextest.toml --profile pb --test-threads 8 --offline",
        "source_commits": hooks,
        "add_only": True,
    },
    "not_applicable": [],
    "checks": checks,
    "engines": [
        {"name": "E1 mqsched", "path": "/verif/engine (src/rt.rs, explore.rs, scenario.rs, catalog.rs, oracles.rs)",
         "serves_properties": [p for p in sorted(P) if "E1" in P[p][0]],
         "kind_free_text": "stateless model checking of the implementation: baton scheduler over real OS threads, deviation-bounded DFS over choice prefixes, replay with divergence detection"},
        {"name": "E2 seqmc", "path": "/verif/engine/src/seqmc.rs",
         "serves_properties": [p for p in sorted(P) if "E2" in P[p][0]],
         "kind_free_text": "explicit enumeration of API histories against a reference model; every model transition is executed on the real handles"},
        {"name": "E3 probes", "path": "/verif/probes/probe.py", "serves_properties": ["C19"],
         "kind_free_text": "exhaustive auto-trait compile-probe matrix"},
    ],
    "notes": "Single entry point ./check <ID> <quick|thorough>; exit 0 held / 1 violation / 2 machinery failure. known_findings.json lists genuine defects that are recorded (status known, scoped to signature+scenario) or repaired by fix: commits in /repo (status fixed; these suppress nothing). See DESIGN.md sections 9-10.",
}
import jsonschema
jsonschema.validate(m, json.load(open("/root/.vp/MANIFEST.schema.json")))  # before anything is written
json.dump(m, open("/verif/MANIFEST.json", "w"), indent=2)
print("MANIFEST.json written and valid;", len(checks), "checks;", len(hooks), "hook commits")
