#!/usr/bin/env python3
"""Regenerates Appendix B of DESIGN.md from /verif/seeded/*/meta.json (+ REGRESSION.json if present)."""
import json, glob, os, re
metas = [json.load(open(f)) for f in sorted(glob.glob('/verif/seeded/*/meta.json'))]
reg = {}
rp = '/verif/seeded/REGRESSION.json'
if os.path.exists(rp):
    for name, verdict, detail in json.load(open(rp)):
        reg[name] = verdict
rows = []
missed = []
for m in metas:
    needs = m['needs_to_manifest']
    first = re.split(r'\. (?=Missed|Did not|Within|A lost|Reported|C0|Caught)', needs)[0]
    note = ''
    if 'issed' in needs or 'Did not' in needs:
        note = '**missed at first**'
        missed.append(m)
    caught = ', '.join(c.replace(' quick', '') for c in m['caught_by_checks'])  # 'Cxx thorough' stays explicit
    rows.append('| %s | %s | %s | %s | %s |' % (m['id'], m['breaks_property'], caught, first[:150].replace('|', '/'), note))
out = []
out.append('## Appendix B. Detection record\n')
out.append('''Independent sub-agents were given only a property's text and a scratch worktree
of `/repo` and asked for a change that breaks the property, keeps the suite
green and needs something specific to manifest, with a demonstration. Round 1
(one agent per property), round 2 (14 agents, told which sites were already
taken and pointed at the less obvious corners), round 3 (14 agents, asked for
two cooperating sites), round 4 (8 agents, history- or state-dependent
changes), round 5 (8 agents, population- and threshold-dependent changes)
round 6 (8 agents, ownership / unsafe memory handling and the API-level
wrappers), round 7 (8 agents, sent to the functions nobody had touched) and
round 8 (8 agents, wake-up paths and the code of the latest repairs) and
round 9 (8 agents, the properties with the fewest seeds) delivered %d changes
that were
kept; each was re-confirmed in a scratch worktree (`tools/confirm_mutant.sh`:
suite passes with it, demo fails with it and passes without) and run against
the checks (`tools/try_mutant.sh`). `/verif/seeded/<id>/` holds `patch.diff`
(re-diffed against the current `/repo`), the demonstration and `meta.json`;
`tools/seed_regress.py` re-applies every seed and re-runs the checks recorded
as catching it (result in `seeded/REGRESSION.json`).

All %d seeds are caught on the current tree, by quick checks except where the
table says `thorough`. %d of them were
**missed when first tried**; each miss was analysed and answered by a change
to the machinery, never by loosening anything:

''' % (len(metas), len(metas), len(missed)))
for m in missed:
    n = m['needs_to_manifest']
    i = n.find('issed')
    j = n.find('Did not')
    k = min([x for x in (i - 1, j) if x >= 0] or [0])
    out.append('* `%s` — %s\n' % (m['id'], n[k:].strip()))
out.append('''
The misses fall into four classes, which is what the catalogue and the runtime
learnt from them: (1) a missing *actor combination* (two producers against a
shared clone, two senders leaving against a *blocked* consumer, concurrent
add_streams, a stream leaving against an add_stream, a parked sink against
`unsubscribe()`); (2) a missing *prepared state* (reclamation epoch pending,
retirement count just below the threshold, receivers already gone, idle
bursts); (3) a window that needs one preemption more than the quick bound for
three threads — answered by putting two roles into one thread; (4) the
*granularity* of the explored space: dereferences of the stream list, slot
value accesses and payload destructors were not scheduling points of their
own, so windows between a pointer/tag load and the plain access behind it did
not exist. (4) is the important one: it was invisible from inside and only the
seeded changes showed it. Round 4 added (5) *populations*: the implementation
switches code paths on how many tasks are parked (8) and scans lists whose
length no scenario exceeded (3); E2 now sweeps 1..12 parked tasks and 1..12
extra streams / handles / 8 extra senders, and compares the results of the
long churn histories with the model. Misses per round (first try): 10 of 40,
10 of 27, 4 of 25, 5 of 12, 5 of 15, 3 of 12, 2 of 7, 3 of 9, 3 of 4 (in the last rounds
about half of these were reported by the check of a neighbouring property and
only the own property's scenario set or attribution was extended). About
twenty-five deliveries that repeated the site and mechanism of a stored seed
were not kept twice — from round 7 on more than half of what came back was a
repeat: the
crate is 2 000 lines and the sub-agents are running out of new places.
One round-7 sub-agent remarked in passing that its demonstration had used
1.5 GB on the *unchanged* crate; that led to a genuine defect (section 9,
c37a714).

Two lessons about the machinery itself. (a) *A check that "catches" a seed may
be alarming for the wrong reason*: two round-4 seeds were believed caught by
C17 because the machinery had a false alarm of its own at that moment (section
9); the full re-run of all seeds on the corrected machinery (`seed_regress.py`,
every seed against the checks recorded for it, plus its own property's check)
showed that C17 was silent, and led to the churn histories that start with a
cycle in flight and to the growth probe. (b) *Findings can fall between
checks*: E2 saw a use-after-free in a seeded change while running for C09 and
reported nothing, because the signature belonged to C16 and C16 did not run
histories. `own_gap` (kept in the history of this file's tools) re-ran every
seed whose own property's check is silent and looked for findings of that
property in the evidence of the checks that do catch it: none are left, i.e.
where a seed is recorded under a neighbouring check, its effect within the
bounds really is a violation of that neighbouring property.

Seeds whose own property's oracle stays silent while another check fires are
recorded as such (e.g. the C02 seeds manifest as loss/duplication within the
bounds and are reported by C01/C12; lost wake-ups written "for" C10/C12/C15
are reported by C14/C11).

One delivered change (add_stream seeded with the masked index, round 1) was
discarded: it was written against the tree before the add_stream repair, which
overwrites the seeded position, so on the current tree its demonstration
passes. An own change, "publish the slot tag before writing the value" in
`try_send_single`, is caught by C01 and C04 since the slot accesses became
scheduling points (it was invisible before).

| seed | breaks | caught by (quick) | needs | |
|---|---|---|---|---|
''')
out.append('\n'.join(rows) + '\n')
p = '/verif/DESIGN.md'
s = open(p).read()
i = s.index('## Appendix B. Detection record')
open(p, 'w').write(s[:i] + ''.join(out))
print(len(metas), 'seeds,', len(missed), 'missed at first')
