#!/usr/bin/env python3
"""Rewrites the measured table of DESIGN.md section 1 from /verif/evidence/*.json (quick) and
/verif/evidence_thorough/*.json (thorough, if present)."""
import json, os, re
WHAT = {
 "C01": "base pairs (4 prepared states) / trios / quad + role matrix (all pairs and triples of 22 roles) + C10/C11/C12 structural scenarios; both flavours",
 "C02": "same executions as C01, order-graph oracle",
 "C03": "the above + non-power-of-two capacities + capacity pump 0..9 (E2)",
 "C04": "payload with scheduling points inside clone/view/drop; slot accesses are points",
 "C05": "teardown-race scenarios + all histories ≤ depth 5 × 2–4 teardown orders",
 "C06": "every execution of the C01 set ends with the fill/drain probe",
 "C07": "last send/drop vs try_recv/recv/view/poll, blocked and parked consumers; 1..12 parked consumers (E2)",
 "C08": "blocking receives × {busy, yield(0,0),(1,1), block(0,0),(1,1)}",
 "C09": "all histories ≤ depth 5, 8 families × capacity {1,2}, after-churn starts, pump 0..9, churn results",
 "C10": "add_stream vs producer vs sibling / other stream, 3 prepared states + role matrix",
 "C11": "drop/unsubscribe of last/non-last handle vs retrying producer + role matrix",
 "C12": "population 1→2→1 with hand-off + role matrix + churn results vs model (E2)",
 "C13": "last receiver leaves vs try_send / parking sink + role matrix; all drop orders, 1..12 parked sinks (E2)",
 "C14": "task scenarios + futures role matrix; lost-wake-up oracle on all futures histories, 1..12 parked tasks (E2)",
 "C15": "futures histories ≤ depth 5 + futures pairs/trios + futures role matrix",
 "C16": "stream churn at the reclamation threshold vs scanning writers + role matrix, freed-set monitor",
 "C17": "zero live blocks after every role-matrix execution; histories × teardown orders; churn 10²,10³ cycles",
 "C18": "solo-run scenarios: every (schedule prefix, freeze point), incl. frozen structural operations",
 "C19": "12 types × 4 payload classes × closure classes × {Send,Sync} + 2 constructors × 3 wait-strategy classes",
}
def load(d, p):
    f = os.path.join(d, p + ".json")
    return json.load(open(f)) if os.path.exists(f) else None
def fmt(n):
    if n >= 1e6: return "%.1f·10⁶" % (n / 1e6)
    if n >= 1e3: return "%.0f·10³" % (n / 1e3)
    return str(n)
rows = ["| id | engine | quick: evaluations / distinct outcomes / wall | thorough: evaluations / wall / complete | what is enumerated |",
        "|----|--------|------|------|------|"]
man = {c["property_id"]: c for c in json.load(open("/verif/MANIFEST.json"))["checks"]}
for p in sorted(WHAT):
    q = load("/verif/evidence", p); t = load("/verif/evidence_thorough", p)
    if q and q.get("tier") != "quick": q = None
    qs = "%s / %s / %.0f s" % (fmt(q["coverage"]["evaluations"]), fmt(q["coverage"]["distinct_nontrivial"]), q["wall_s"]) if q else "-"
    ts = "-"
    if t and t.get("tier") == "thorough":
        ts = "%s / %.0f s / %s" % (fmt(t["coverage"]["evaluations"]), t["wall_s"], "yes" if t["coverage"].get("exhaustive") else "capped (see evidence)")
    rows.append("| %s | %s | %s | %s | %s |" % (p, man[p]["engine"], qs, ts, WHAT[p]))
s = open("/verif/DESIGN.md").read()
a = s.index("<!-- TABLE1 -->"); b = s.index("<!-- /TABLE1 -->")
s = s[:a] + "<!-- TABLE1 -->\n" + "\n".join(rows) + "\n" + s[b:]
open("/verif/DESIGN.md", "w").write(s)
print("table written,", len(rows) - 2, "rows")
