#!/usr/bin/env python3
"""keep_seed.py <name> <property> <patch> <demo> <confirm_log> <caught_by csv> <needs text> [notes.md]
Stores a confirmed property-breaking change under /verif/seeded/<name>/ (patch re-diffed against /repo HEAD)."""
import json, os, shutil, subprocess, sys
name, prop, patch, demo, clog, caught, needs = sys.argv[1:8]
REPO = os.environ.get('SEED_REPO', '/repo')  # a worktree at /repo's HEAD may stand in while /repo is busy
notes = sys.argv[8] if len(sys.argv) > 8 else None
d = os.path.join('/verif/seeded', name)
os.makedirs(d, exist_ok=True)
assert subprocess.run(['git', '-C', REPO, 'diff', '--quiet']).returncode == 0, '/repo dirty'
r = subprocess.run(['git', '-C', REPO, 'apply', patch])
if r.returncode != 0:
    r = subprocess.run('cd %s && patch -p1 --no-backup-if-mismatch < %s' % (REPO, patch), shell=True)
    assert r.returncode == 0, 'patch does not apply'
diff = subprocess.run(['git', '-C', REPO, 'diff', '--', 'src'], capture_output=True, text=True).stdout
subprocess.run(['git', '-C', REPO, 'checkout', '--', '.'])
open(os.path.join(d, 'patch.diff'), 'w').write(diff)
shutil.copy(demo, os.path.join(d, 'demo.rs'))
if notes and os.path.exists(notes):
    shutil.copy(notes, os.path.join(d, 'notes_from_author.md'))
head = subprocess.run(['git', '-C', '/repo', 'log', '--format=%h', '-1'], capture_output=True, text=True).stdout.strip()
meta = {
    'id': name, 'breaks_property': prop, 'needs_to_manifest': needs,
    'patch_applies_to_repo_commit': head,
    'confirmed': open(clog).read().strip().splitlines()[0] if os.path.exists(clog) else 'see notes',
    'what_was_run': [
        'scratch worktree: cargo test --offline with the patch (crate suite passes); demo copied to tests/: fails with the patch, passes without (tools/confirm_mutant.sh)',
        'git -C /repo apply patch.diff; ./check <ID> quick for the listed properties; git -C /repo checkout -- . (tools/try_mutant.sh)'],
    'caught_by_checks': [c for c in caught.split(',') if c],
}
json.dump(meta, open(os.path.join(d, 'meta.json'), 'w'), indent=1)
print('kept', d)
