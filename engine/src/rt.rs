//! The runtime behind the crate's verification hooks.
//!
//! One global instance. Three kinds of callers:
//!  * managed threads (tid 0..n) of an execution: serialised by a baton, every
//!    hook operation is a scheduling point decided by a choice sequence;
//!  * the harness main thread in *sequential* mode (set-up prefix, post-join
//!    probes, E2 histories): operations fall through, but steps are counted and
//!    anything that would block/spin forever unwinds with `AbortToken`;
//!  * anything else: falls through.

use crate::valloc::{self, Untrack};
use multiqueue2::verif_hooks::{set_thread_runtime, Op, Runtime};
use std::cell::Cell;
use std::collections::{BTreeMap, HashMap};
use std::panic::{self, AssertUnwindSafe};
use std::sync::{Condvar, Mutex, MutexGuard, OnceLock};
use std::time::Duration;

pub const MAXT: usize = 8;
const NONE: usize = usize::MAX;
const SEQ: usize = usize::MAX - 1;

thread_local! {
    static TID: Cell<usize> = const { Cell::new(NONE) };
    static UNWINDING: Cell<bool> = const { Cell::new(false) };
}

/// Panic payload used to abandon an execution / a blocking call.
pub struct AbortToken;

#[derive(Clone, Copy, PartialEq, Eq, Debug)]
pub enum Block {
    None,
    Mutex(usize),
    Cond(usize, usize),
    Park,
    Spin(u64),
    Flag(usize),
}

#[derive(Clone, Copy, Default, Debug, PartialEq, Eq)]
pub struct OpStats {
    pub steps: u32,
    pub yields: u32,
    pub sleeps: u32,
    pub spin_marks: u32,
    pub spin_blocks: u32,
    pub cond_waits: u32,
    pub lock_waits: u32,
}

#[derive(Clone, Debug)]
struct Th {
    finished: bool,
    block: Block,
    yielding: bool,
    /// per wait-loop site: epoch at which its marker was last passed
    spin_sites: Vec<(usize, u64)>,
    notified: bool,
    stats: OpStats,
    solo: bool,
    started: bool,
    trace_idx: usize,
}

impl Th {
    fn new() -> Th {
        Th {
            finished: false,
            block: Block::None,
            yielding: false,
            spin_sites: Vec::new(),
            notified: false,
            stats: OpStats::default(),
            solo: false,
            started: false,
            trace_idx: usize::MAX,
        }
    }
}

#[derive(Clone, Copy, Debug, PartialEq, Eq)]
pub struct ChoicePoint {
    pub n: u8,
    pub chosen: u8,
    /// bit i set = taking option i costs one deviation
    pub cost_mask: u32,
    /// the point is a yield / spin marker (deviations here may be charged to
    /// a separate allowance)
    pub at_yield: bool,
}

#[derive(Clone, Debug, PartialEq, Eq)]
pub enum Status {
    Complete,
    /// no enabled thread; (tid, block reason) of every unfinished thread
    Hang(Vec<(usize, Block)>),
    Horizon,
    Diverged(String),
    /// a memory-safety finding stopped the execution
    Fault,
}

#[derive(Clone, Debug, PartialEq, Eq, Hash)]
pub enum MemFault {
    UseAfterFree { kind: &'static str },
    DoubleFree,
    UnknownFree,
}

#[derive(Clone, Copy, PartialEq, Eq)]
enum Mode {
    Idle,
    Running,
    Abort,
}

#[derive(Clone, Copy, PartialEq, Eq)]
enum PointKind {
    Normal,
    Yield,
    Blocked,
    Exit,
}

pub struct ExecOpts {
    pub prefix: Vec<u8>,
    pub expect_n: Vec<u8>,
    pub horizon: u64,
    pub trace: bool,
    pub hash: bool,
    pub solo: Option<usize>,
    /// every compare_exchange_weak that would succeed is a binary choice
    /// point: option 1 (one deviation) makes it fail spuriously
    pub spurious: bool,
}

pub struct ExecRecord {
    pub status: Status,
    pub choices: Vec<ChoicePoint>,
    pub steps: u64,
    pub trace_hash: u64,
    pub trace: Vec<String>,
    pub panics: Vec<(usize, String)>,
    pub switches: u32,
    pub cas_weak_points: u64,
    /// the threads of an abandoned execution did not come back (a loop in a
    /// destructor that runs while unwinding): nothing of the crate may be
    /// touched any more and the process has to end
    pub runaway: bool,
}

struct Inner {
    mode: Mode,
    n: usize,
    th: Vec<Th>,
    cur: usize,
    tick: u64,
    steps: u64,
    epoch: u64,
    owners: Vec<(usize, usize)>,
    flags: Vec<bool>,
    choices: Vec<ChoicePoint>,
    prefix: Vec<u8>,
    expect_n: Vec<u8>,
    horizon: u64,
    status: Option<Status>,
    solo: Option<usize>,
    solo_running: bool,
    frozen: bool,
    tracing: bool,
    hashing: bool,
    trace: Vec<String>,
    trace_hash: u64,
    names: HashMap<usize, u32>,
    panics: Vec<(usize, String)>,
    switches: u32,
    abort_queue: Vec<usize>,
    cas_weak_seen: u64,
    spurious: bool,
    // memory bookkeeping (whole execution incl. sequential phases)
    freed: BTreeMap<usize, usize>,
    live: HashMap<usize, usize>,
    faults: Vec<MemFault>,
    stop_on_fault: bool,
    // sequential mode
    seq_stats: OpStats,
    seq_spin_sites: Vec<(usize, u64)>,
    seq_horizon: u64,
    seq_steps: u64,
    seq_notifies: Vec<usize>,
    sleeps_total: u32,
}

struct Parker {
    m: Mutex<bool>,
    c: Condvar,
}

impl Parker {
    fn new() -> Parker {
        Parker {
            m: Mutex::new(false),
            c: Condvar::new(),
        }
    }
    fn park(&self) {
        let mut g = self.m.lock().unwrap();
        while !*g {
            g = self.c.wait(g).unwrap();
        }
        *g = false;
    }
    fn unpark(&self) {
        let mut g = self.m.lock().unwrap();
        *g = true;
        self.c.notify_one();
    }
}

pub struct Sched {
    inner: Mutex<Inner>,
    parkers: Vec<Parker>,
    main: Parker,
}

static SCHED: OnceLock<Sched> = OnceLock::new();

pub fn sched() -> &'static Sched {
    SCHED.get_or_init(|| Sched {
        inner: Mutex::new(Inner {
            mode: Mode::Idle,
            n: 0,
            th: Vec::new(),
            cur: NONE,
            tick: 0,
            steps: 0,
            epoch: 1,
            owners: Vec::new(),
            flags: Vec::new(),
            choices: Vec::new(),
            prefix: Vec::new(),
            expect_n: Vec::new(),
            horizon: 0,
            status: None,
            solo: None,
            solo_running: false,
            frozen: false,
            tracing: false,
            hashing: false,
            trace: Vec::new(),
            trace_hash: 0,
            names: HashMap::new(),
            panics: Vec::new(),
            switches: 0,
            abort_queue: Vec::new(),
            cas_weak_seen: 0,
            spurious: false,
            freed: BTreeMap::new(),
            live: HashMap::new(),
            faults: Vec::new(),
            stop_on_fault: true,
            seq_stats: OpStats::default(),
            seq_spin_sites: Vec::new(),
            seq_horizon: 200_000,
            seq_steps: 0,
            seq_notifies: Vec::new(),
            sleeps_total: 0,
        }),
        parkers: (0..MAXT).map(|_| Parker::new()).collect(),
        main: Parker::new(),
    })
}

fn fnv(h: u64, x: u64) -> u64 {
    let mut h = h ^ x;
    h = h.wrapping_mul(0x100000001b3);
    h ^ (h >> 29)
}

fn unwind_abort() -> ! {
    UNWINDING.with(|u| u.set(true));
    UNWIND_OPS.with(|c| c.set(0));
    panic::resume_unwind(Box::new(AbortToken))
}

fn is_unwinding() -> bool {
    let u = UNWINDING.with(|u| u.get());
    if u {
        // destructors that run while an abandoned call unwinds are executed for
        // real (pass-through). A destructor that waits for something that will
        // never happen any more would spin here for ever: count, and end the
        // process with what has been found so far
        let n = UNWIND_OPS.with(|c| {
            c.set(c.get() + 1);
            c.get()
        });
        if n > 20_000_000 {
            runaway_exit();
        }
    }
    u
}

thread_local! {
    static UNWIND_OPS: Cell<u64> = const { Cell::new(0) };
}

static PARTIAL: Mutex<String> = Mutex::new(String::new());

/// Results so far, in the worker's output format (printed if the process has
/// to end from inside a runaway cleanup).
pub fn set_partial(s: String) {
    if let Ok(mut p) = PARTIAL.lock() {
        *p = s;
    }
}

fn runaway_exit() -> ! {
    let p = PARTIAL.lock().map(|p| p.clone()).unwrap_or_default();
    print!("{}", p);
    println!("STAT\tcapped\t1");
    println!("ERR\tcleanup of an abandoned call did not terminate (a destructor run while unwinding keeps waiting); process ended early, findings so far are reported");
    use std::io::Write;
    let _ = std::io::stdout().flush();
    std::process::exit(0);
}

pub fn install_panic_hook() {
    let default = panic::take_hook();
    panic::set_hook(Box::new(move |info| {
        let tid = TID.with(|t| t.get());
        if tid == NONE {
            default(info);
            return;
        }
        let _u = Untrack::new();
        let msg = if let Some(s) = info.payload().downcast_ref::<&str>() {
            s.to_string()
        } else if let Some(s) = info.payload().downcast_ref::<String>() {
            s.clone()
        } else {
            "<non-string panic>".to_string()
        };
        let loc = info
            .location()
            .map(|l| format!("{}:{}", l.file(), l.line()))
            .unwrap_or_default();
        LAST_PANIC.with(|p| *p.borrow_mut() = Some(format!("{} @ {}", msg, loc)));
    }));
}

thread_local! {
    static LAST_PANIC: std::cell::RefCell<Option<String>> = const { std::cell::RefCell::new(None) };
}

pub fn take_last_panic() -> Option<String> {
    LAST_PANIC.with(|p| p.borrow_mut().take())
}

impl Inner {
    fn owner(&self, m: usize) -> Option<usize> {
        self.owners.iter().find(|(a, _)| *a == m).map(|(_, o)| *o)
    }
    fn set_owner(&mut self, m: usize, o: usize) {
        self.owners.push((m, o));
    }
    fn clear_owner(&mut self, m: usize) {
        self.owners.retain(|(a, _)| *a != m);
    }
    fn enabled(&self, i: usize) -> bool {
        let t = &self.th[i];
        if t.finished {
            return false;
        }
        match t.block {
            Block::None => true,
            Block::Mutex(m) => self.owner(m).is_none(),
            Block::Cond(..) => false,
            Block::Park => false,
            Block::Spin(e) => self.epoch != e,
            Block::Flag(f) => self.flags.get(f).copied().unwrap_or(false),
        }
    }
    fn name(&mut self, addr: usize) -> u32 {
        let n = self.names.len() as u32;
        *self.names.entry(addr).or_insert(n)
    }
    fn check_freed(&mut self, addr: usize, bytes: usize, kind: &'static str) -> bool {
        if self.freed.is_empty() {
            return false;
        }
        if let Some((&s, &l)) = self.freed.range(..addr + bytes.max(1)).next_back() {
            if addr < s + l && addr + bytes.max(1) > s {
                let f = MemFault::UseAfterFree { kind };
                if !self.faults.contains(&f) {
                    self.faults.push(f);
                }
                return true;
            }
        }
        false
    }
}

impl Sched {
    fn lock(&self) -> MutexGuard<'_, Inner> {
        match self.inner.lock() {
            Ok(g) => g,
            Err(p) => p.into_inner(),
        }
    }

    /// Ask for the next thread to run. `me` is the caller (NONE for main).
    /// Returns with the baton held by `me` again (or unwinds in abort mode).
    fn switch(&self, me: usize, mut g: MutexGuard<'_, Inner>, kind: PointKind) {
        let n = g.n;
        // ---------------------------------------------------- option list
        let mut opts: [usize; MAXT + 1] = [NONE; MAXT + 1];
        let mut cost: u32 = 0;
        let mut k = 0usize;
        let start = if me == NONE { 0 } else { me + 1 };
        let solo = g.solo;
        let solo_pending = |g: &Inner, i: usize| solo == Some(i) && !g.th[i].started;
        if g.solo_running && me != NONE && kind != PointKind::Exit && g.enabled(me) {
            // the solo thread runs alone until its body is done
            opts[0] = me;
            k = 1;
        } else {
            if g.solo_running {
                g.solo_running = false;
                g.frozen = true;
            }
            match kind {
                PointKind::Normal => {
                    opts[0] = me;
                    k = 1;
                    for d in 0..n {
                        let i = (start + d) % n;
                        if i != me && g.enabled(i) && !solo_pending(&g, i) {
                            cost |= 1 << k;
                            opts[k] = i;
                            k += 1;
                        }
                    }
                }
                PointKind::Yield => {
                    for d in 0..n {
                        let i = (start + d) % n;
                        if i != me && g.enabled(i) && !solo_pending(&g, i) {
                            if k > 0 {
                                cost |= 1 << k;
                            }
                            opts[k] = i;
                            k += 1;
                        }
                    }
                    if k > 0 {
                        cost |= 1 << k;
                    }
                    opts[k] = me;
                    k += 1;
                }
                PointKind::Blocked | PointKind::Exit => {
                    for d in 0..n {
                        let i = (start + d) % n;
                        if i != me && g.enabled(i) && !solo_pending(&g, i) {
                            opts[k] = i;
                            k += 1;
                        }
                    }
                }
            }
            // "start the solo prober here": a free alternative at every point
            if let Some(s) = solo {
                if !g.th[s].started && !g.th[s].finished && s != me {
                    opts[k] = s;
                    k += 1;
                }
            }
        }
        if k == 0 {
            // nobody can run
            if g.th.iter().all(|t| t.finished) {
                g.status.get_or_insert(Status::Complete);
                g.mode = Mode::Idle;
                drop(g);
                return; // only reached from Exit
            }
            let hang: Vec<(usize, Block)> = g
                .th
                .iter()
                .enumerate()
                .filter(|(_, t)| !t.finished)
                .map(|(i, t)| (i, t.block))
                .collect();
            g.status.get_or_insert(Status::Hang(hang));
            self.begin_abort(me, g, kind);
            return;
        }
        // --------------------------------------------------------- choose
        let pick = if k == 1 || g.frozen {
            0
        } else {
            let idx = g.choices.len();
            let c = if idx < g.prefix.len() {
                let c = g.prefix[idx] as usize;
                let en = g.expect_n[idx] as usize;
                if c >= k || (en != 0 && en != k) {
                    g.status.get_or_insert(Status::Diverged(format!(
                        "choice point {}: replay wants option {} of {}, found {} options",
                        idx, c, en, k
                    )));
                    self.begin_abort(me, g, kind);
                    return;
                }
                c
            } else {
                0
            };
            g.choices.push(ChoicePoint {
                n: k as u8,
                chosen: c as u8,
                cost_mask: cost,
                at_yield: kind == PointKind::Yield,
            });
            c
        };
        let next = opts[pick];
        if me != NONE && kind == PointKind::Yield {
            g.th[me].yielding = false;
        }
        if solo == Some(next) && !g.th[next].started {
            g.solo_running = true;
        }
        if next == me {
            return;
        }
        g.th[next].started = true;
        g.cur = next;
        g.switches += 1;
        drop(g);
        self.parkers[next].unpark();
        if kind != PointKind::Exit && me != NONE {
            self.wait_for_baton(me);
        }
    }

    fn wait_for_baton(&self, me: usize) {
        self.parkers[me].park();
        let g = self.lock();
        if g.mode == Mode::Abort {
            drop(g);
            unwind_abort();
        }
    }

    /// Enter abort mode: every unfinished thread is released, one at a time,
    /// with an unwind out of the runtime call it is parked in.
    fn begin_abort(&self, me: usize, mut g: MutexGuard<'_, Inner>, kind: PointKind) {
        g.mode = Mode::Abort;
        let mut q: Vec<usize> = (0..g.n)
            .filter(|&i| !g.th[i].finished && i != me)
            .collect();
        q.reverse();
        g.abort_queue = q;
        if me != NONE && kind != PointKind::Exit {
            // the caller is itself unfinished: it unwinds first; the chain
            // continues from its thread-exit handler
            drop(g);
            unwind_abort();
        }
        self.abort_next(g);
    }

    fn abort_next(&self, mut g: MutexGuard<'_, Inner>) {
        match g.abort_queue.pop() {
            Some(i) => {
                drop(g);
                self.parkers[i].unpark();
            }
            None => {
                g.mode = Mode::Idle;
                drop(g);
            }
        }
    }

    // ------------------------------------------------------------ points

    fn managed_point(&self, me: usize, kind: PointKind, what: &'static str, addr: usize) {
        let mut g = self.lock();
        if g.mode != Mode::Running {
            return;
        }
        g.steps += 1;
        g.tick += 1;
        g.th[me].stats.steps += 1;
        if g.steps > g.horizon {
            g.status.get_or_insert(Status::Horizon);
            self.begin_abort(me, g, PointKind::Normal);
            return;
        }
        if g.tracing {
            let a = g.name(addr);
            let s = format!("t{} {} @{}", me, what, a);
            g.trace.push(s);
            g.th[me].trace_idx = g.trace.len() - 1;
        }
        self.switch(me, g, kind);
    }

    fn after(&self, me: usize, addr: usize, value: usize, changed: bool, is_ptr: bool) {
        let mut g = self.lock();
        if changed {
            g.epoch += 1;
        }
        if g.tracing || g.hashing {
            let a = g.name(addr) as u64;
            let v = if is_ptr {
                if value == 0 {
                    0
                } else {
                    g.name(value) as u64 + 1
                }
            } else {
                value as u64
            };
            g.trace_hash = fnv(fnv(fnv(g.trace_hash, me as u64), a), v);
            if g.tracing {
                let ti = g.th[me].trace_idx;
                if let Some(l) = g.trace.get_mut(ti) {
                    l.push_str(&format!(" -> {:#x}{}", v, if changed { " *" } else { "" }));
                }
            }
        }
    }

    fn fault_stop(&self, me: usize, g: MutexGuard<'_, Inner>) {
        // called with a fresh fault recorded
        if g.mode == Mode::Running && g.stop_on_fault && me < MAXT {
            let mut g = g;
            g.status.get_or_insert(Status::Fault);
            self.begin_abort(me, g, PointKind::Normal);
        }
    }
}

fn tid() -> usize {
    TID.try_with(|t| t.get()).unwrap_or(NONE)
}

impl Runtime for Sched {
    fn point(&self, op: Op, addr: usize) {
        let me = tid();
        if me == NONE || is_unwinding() {
            return;
        }
        let _u = Untrack::new();
        if me == SEQ {
            let mut g = self.lock();
            g.seq_steps += 1;
            g.tick += 1;
            g.seq_stats.steps += 1;
            if g.check_freed(addr, 8, "atomic") {
                drop(g);
                unwind_abort();
            }
            if g.seq_steps > g.seq_horizon {
                g.seq_stats.spin_blocks += 1;
                drop(g);
                unwind_abort();
            }
            return;
        }
        {
            let mut g = self.lock();
            if g.check_freed(addr, 8, "atomic") {
                self.fault_stop(me, g);
                return;
            }
            if op == Op::CasWeak {
                g.cas_weak_seen += 1;
            }
        }
        let what = match op {
            Op::Load => "load",
            Op::Store => "store",
            Op::Rmw => "rmw",
            Op::Cas => "cas",
            Op::CasWeak => "casw",
            Op::PtrLoad => "pload",
            Op::PtrCas => "pcas",
        };
        self.managed_point(me, PointKind::Normal, what, addr);
    }

    fn done(&self, op: Op, addr: usize, value: usize, changed: bool) {
        let me = tid();
        if me == NONE || is_unwinding() {
            return;
        }
        let _u = Untrack::new();
        if me == SEQ {
            if changed {
                self.lock().epoch += 1;
            }
            return;
        }
        self.after(
            me,
            addr,
            value,
            changed,
            matches!(op, Op::PtrLoad | Op::PtrCas),
        );
    }

    fn spurious_cas_failure(&self, _addr: usize) -> bool {
        let me = tid();
        if me >= MAXT || is_unwinding() {
            return false;
        }
        // the choice list may grow here: not memory of the code under test
        let _u = Untrack::new();
        let mut g = self.lock();
        if g.mode != Mode::Running {
            return false;
        }
        if !g.spurious || g.frozen || g.solo_running {
            return false;
        }
        let idx = g.choices.len();
        let c = if idx < g.prefix.len() {
            let c = g.prefix[idx] as usize;
            let en = g.expect_n[idx] as usize;
            if c >= 2 || (en != 0 && en != 2) {
                g.status.get_or_insert(Status::Diverged(format!(
                    "choice point {}: replay wants option {} of {}, found a weak CAS (2 options)",
                    idx, c, en
                )));
                self.begin_abort(me, g, PointKind::Normal);
                return false;
            }
            c
        } else {
            0
        };
        g.choices.push(ChoicePoint {
            n: 2,
            chosen: c as u8,
            cost_mask: 0b10,
            at_yield: false,
        });
        if c == 1 && g.tracing {
            if let Some(l) = g.trace.last_mut() {
                l.push_str(" [spurious failure injected]");
            }
        }
        c == 1
    }

    fn mutex_lock(&self, addr: usize) {
        let me = tid();
        if me == NONE || is_unwinding() {
            return;
        }
        let _u = Untrack::new();
        let mut g = self.lock();
        if me == SEQ {
            g.seq_steps += 1;
            if g.owner(addr).is_some() {
                g.seq_stats.lock_waits += 1;
                drop(g);
                unwind_abort();
            }
            g.set_owner(addr, SEQ);
            return;
        }
        if g.mode != Mode::Running {
            return;
        }
        if g.owner(addr).is_some() {
            g.th[me].block = Block::Mutex(addr);
            g.th[me].stats.lock_waits += 1;
            drop(g);
            self.managed_point(me, PointKind::Blocked, "lock(wait)", addr);
        } else {
            drop(g);
            self.managed_point(me, PointKind::Normal, "lock", addr);
        }
        // we hold the baton; the mutex may have been taken meanwhile if we
        // were preempted at the Normal point
        loop {
            let mut g = self.lock();
            if g.mode != Mode::Running {
                return;
            }
            if g.owner(addr).is_none() {
                g.th[me].block = Block::None;
                g.set_owner(addr, me);
                return;
            }
            g.th[me].block = Block::Mutex(addr);
            g.th[me].stats.lock_waits += 1;
            // not a new step: wait until it is free
            self.switch(me, g, PointKind::Blocked);
        }
    }

    fn mutex_try_lock(&self, addr: usize) -> bool {
        let me = tid();
        if me == NONE || is_unwinding() {
            return true;
        }
        let _u = Untrack::new();
        if me == SEQ {
            let mut g = self.lock();
            if g.owner(addr).is_some() {
                return false;
            }
            g.set_owner(addr, SEQ);
            return true;
        }
        self.managed_point(me, PointKind::Normal, "trylock", addr);
        let mut g = self.lock();
        if g.mode != Mode::Running {
            return true;
        }
        if g.owner(addr).is_none() {
            g.set_owner(addr, me);
            true
        } else {
            false
        }
    }

    fn mutex_unlock(&self, addr: usize) {
        let me = tid();
        if me == NONE {
            return;
        }
        let _u = Untrack::new();
        let mut g = self.lock();
        g.clear_owner(addr);
    }

    fn cond_wait(&self, cv: usize, mutex: usize) {
        let me = tid();
        if me == NONE || is_unwinding() {
            return;
        }
        let _u = Untrack::new();
        let mut g = self.lock();
        if me == SEQ {
            g.seq_stats.cond_waits += 1;
            drop(g);
            unwind_abort();
        }
        if g.mode != Mode::Running {
            return;
        }
        // the decision to sleep and the sleep itself are separate steps
        drop(g);
        self.managed_point(me, PointKind::Normal, "condwait-enter", cv);
        let mut g = self.lock();
        if g.mode != Mode::Running {
            return;
        }
        g.steps += 1;
        g.tick += 1;
        g.clear_owner(mutex);
        g.th[me].block = Block::Cond(cv, mutex);
        g.th[me].stats.cond_waits += 1;
        if g.tracing {
            let a = g.name(cv);
            g.trace.push(format!("t{} condwait @{}", me, a));
        }
        self.switch(me, g, PointKind::Blocked);
        // notified: block was turned into Mutex(mutex) and it was free when we
        // were chosen
        let mut g = self.lock();
        if g.mode != Mode::Running {
            return;
        }
        debug_assert!(g.owner(mutex).is_none());
        g.th[me].block = Block::None;
        g.set_owner(mutex, me);
    }

    fn cond_notify_all(&self, cv: usize) {
        let me = tid();
        if me == NONE || is_unwinding() {
            return;
        }
        let _u = Untrack::new();
        if me == SEQ {
            return;
        }
        self.managed_point(me, PointKind::Normal, "notify_all", cv);
        let mut g = self.lock();
        if g.mode != Mode::Running {
            return;
        }
        for t in g.th.iter_mut() {
            if let Block::Cond(c, m) = t.block {
                if c == cv {
                    t.block = Block::Mutex(m);
                }
            }
        }
    }

    fn cond_notify_one(&self, cv: usize) {
        let me = tid();
        if me == NONE || is_unwinding() {
            return;
        }
        let _u = Untrack::new();
        if me == SEQ {
            return;
        }
        self.managed_point(me, PointKind::Normal, "notify_one", cv);
        let mut g = self.lock();
        if g.mode != Mode::Running {
            return;
        }
        // which waiter wakes up is the environment's choice: a free choice
        // point over the threads waiting on this condition variable
        let waiters: Vec<usize> = (0..g.n)
            .filter(|&i| matches!(g.th[i].block, Block::Cond(c, _) if c == cv))
            .collect();
        if waiters.is_empty() {
            return;
        }
        let pick = if waiters.len() == 1 || g.frozen {
            0
        } else {
            let idx = g.choices.len();
            let c = if idx < g.prefix.len() {
                let c = g.prefix[idx] as usize;
                let en = g.expect_n[idx] as usize;
                if c >= waiters.len() || (en != 0 && en != waiters.len()) {
                    g.status.get_or_insert(Status::Diverged(format!(
                        "choice point {}: replay wants waiter {} of {}, found {} waiters",
                        idx, c, en, waiters.len()
                    )));
                    self.begin_abort(me, g, PointKind::Normal);
                    return;
                }
                c
            } else {
                0
            };
            g.choices.push(ChoicePoint {
                n: waiters.len() as u8,
                chosen: c as u8,
                cost_mask: 0,
                at_yield: false,
            });
            c
        };
        let w = waiters[pick];
        if let Block::Cond(_, m) = g.th[w].block {
            g.th[w].block = Block::Mutex(m);
        }
    }

    fn yield_now(&self) {
        let me = tid();
        if me == NONE || is_unwinding() {
            return;
        }
        let _u = Untrack::new();
        if me == SEQ {
            let mut g = self.lock();
            g.seq_stats.yields += 1;
            g.seq_steps += 1;
            return;
        }
        {
            let mut g = self.lock();
            if g.mode != Mode::Running {
                return;
            }
            g.th[me].stats.yields += 1;
            g.th[me].yielding = true;
        }
        self.managed_point(me, PointKind::Yield, "yield", 0);
    }

    fn sleep(&self, _dur: Duration) {
        let me = tid();
        if me == NONE || is_unwinding() {
            return;
        }
        let _u = Untrack::new();
        if me == SEQ {
            let mut g = self.lock();
            g.seq_stats.sleeps += 1;
            g.sleeps_total += 1;
            return;
        }
        {
            let mut g = self.lock();
            if g.mode != Mode::Running {
                return;
            }
            g.th[me].stats.sleeps += 1;
            g.sleeps_total += 1;
            g.th[me].yielding = true;
        }
        self.managed_point(me, PointKind::Yield, "sleep", 0);
    }

    fn spin_loop(&self, site: usize) {
        let me = tid();
        if me == NONE || is_unwinding() {
            return;
        }
        let _u = Untrack::new();
        let mut g = self.lock();
        let e = g.epoch;
        if me == SEQ {
            g.seq_stats.spin_marks += 1;
            let seen = g.seq_spin_sites.iter().any(|&(s, ep)| s == site && ep == e);
            if seen {
                // a whole pass over this loop changed nothing: on one thread
                // it can never end
                g.seq_stats.spin_blocks += 1;
                drop(g);
                unwind_abort();
            }
            g.seq_spin_sites.retain(|&(s, _)| s != site);
            g.seq_spin_sites.push((site, e));
            return;
        }
        if g.mode != Mode::Running {
            return;
        }
        g.th[me].stats.spin_marks += 1;
        let seen = g.th[me].spin_sites.iter().any(|&(s, ep)| s == site && ep == e);
        g.th[me].spin_sites.retain(|&(s, _)| s != site);
        if seen {
            // nothing changed since the previous pass over this loop head:
            // the thread waits for a change made by somebody else
            g.th[me].block = Block::Spin(e);
            g.th[me].stats.spin_blocks += 1;
            g.steps += 1;
            g.tick += 1;
            if g.tracing {
                g.trace.push(format!("t{} spin-wait", me));
            }
            self.switch(me, g, PointKind::Blocked);
            let mut g = self.lock();
            if g.mode != Mode::Running {
                return;
            }
            g.th[me].block = Block::None;
            let e = g.epoch;
            g.th[me].spin_sites.push((site, e));
        } else {
            g.th[me].spin_sites.push((site, e));
            g.th[me].yielding = true;
            drop(g);
            self.managed_point(me, PointKind::Yield, "spin", 0);
        }
    }

    fn on_alloc(&self, ptr: usize, bytes: usize) {
        if tid() == NONE || bytes == 0 {
            return;
        }
        let _u = Untrack::new();
        let mut g = self.lock();
        // memory handed out again is no longer "freed"
        let stale: Vec<usize> = g
            .freed
            .range(..ptr + bytes)
            .rev()
            .take_while(|(&s, &l)| s + l > ptr)
            .map(|(&s, _)| s)
            .collect();
        for s in stale {
            g.freed.remove(&s);
        }
        g.live.insert(ptr, bytes);
    }

    fn on_dealloc(&self, ptr: usize, bytes: usize, _align: usize) -> bool {
        let me = tid();
        if me == NONE || bytes == 0 {
            return false;
        }
        let _u = Untrack::new();
        let mut g = self.lock();
        if g.freed.contains_key(&ptr) {
            if !g.faults.contains(&MemFault::DoubleFree) {
                g.faults.push(MemFault::DoubleFree);
            }
            // swallow the second free: the block is in quarantine already
            if !is_unwinding() {
                self.fault_stop(me, g);
            }
            return true;
        }
        if g.live.remove(&ptr).is_none() {
            if !g.faults.contains(&MemFault::UnknownFree) {
                g.faults.push(MemFault::UnknownFree);
            }
            return true;
        }
        g.freed.insert(ptr, bytes);
        false
    }

    fn touch(&self, ptr: usize, bytes: usize) {
        let me = tid();
        if me == NONE || is_unwinding() {
            return;
        }
        let _u = Untrack::new();
        if me < MAXT {
            // a plain read through a shared pointer is a memory access of its
            // own: another thread may run (and free the target) between the
            // load of the pointer and this dereference
            self.managed_point(me, PointKind::Normal, "deref", ptr);
        }
        let mut g = self.lock();
        if g.check_freed(ptr, bytes, "deref") {
            if me == SEQ {
                drop(g);
                unwind_abort();
            }
            self.fault_stop(me, g);
        }
    }
}

// --------------------------------------------------------------- harness API

/// Per-thread operation statistics: reset at op start, read at op end.
pub fn op_begin() -> u64 {
    let me = tid();
    let s = sched();
    let mut g = s.lock();
    g.tick += 1;
    // a new API call is not another pass over a wait loop inside the crate;
    // harness-level retry loops (site ids < 4096) span several calls
    if me == SEQ {
        g.seq_stats = OpStats::default();
        g.seq_spin_sites.retain(|&(s, _)| s < 4096);
        g.seq_steps = 0;
    } else if me < MAXT {
        g.th[me].stats = OpStats::default();
        g.th[me].spin_sites.retain(|&(s, _)| s < 4096);
    }
    g.tick
}

/// Loop-head marker of a retry loop in the harness itself.
pub fn harness_spin(site: usize) {
    use multiqueue2::verif_hooks::Runtime;
    assert!(site < 4096);
    if tid() != NONE {
        sched().spin_loop(site);
    }
}

pub fn op_end() -> (u64, OpStats) {
    let me = tid();
    let s = sched();
    let mut g = s.lock();
    g.tick += 1;
    let st = if me == SEQ {
        g.seq_stats
    } else if me < MAXT {
        g.th[me].stats
    } else {
        OpStats::default()
    };
    (g.tick, st)
}

pub fn now() -> u64 {
    sched().lock().tick
}

/// Harness-level flag (hand-off of a handle between threads).
pub fn flag_set(f: usize) {
    let me = tid();
    let s = sched();
    if me < MAXT {
        s.managed_point(me, PointKind::Normal, "flag_set", f);
    }
    let mut g = s.lock();
    if g.flags.len() <= f {
        g.flags.resize(f + 1, false);
    }
    g.flags[f] = true;
    g.epoch += 1;
}

pub fn flag_wait(f: usize) {
    let me = tid();
    if me >= MAXT || is_unwinding() {
        return;
    }
    let s = sched();
    let mut g = s.lock();
    if g.mode != Mode::Running {
        return;
    }
    if g.flags.get(f).copied().unwrap_or(false) {
        return;
    }
    g.th[me].block = Block::Flag(f);
    s.switch(me, g, PointKind::Blocked);
    let mut g = s.lock();
    if g.mode == Mode::Running {
        g.th[me].block = Block::None;
    }
}

/// futures-0.1 task parking for the managed thread `me` (task id = tid).
pub fn task_park() {
    let me = tid();
    if me >= MAXT || is_unwinding() {
        return;
    }
    let s = sched();
    let mut g = s.lock();
    if g.mode != Mode::Running {
        return;
    }
    g.steps += 1;
    g.tick += 1;
    if g.th[me].notified {
        g.th[me].notified = false;
        if g.tracing {
            g.trace.push(format!("t{} park (already notified)", me));
        }
        drop(g);
        return;
    }
    g.th[me].block = Block::Park;
    if g.tracing {
        g.trace.push(format!("t{} park", me));
    }
    s.switch(me, g, PointKind::Blocked);
    let mut g = s.lock();
    if g.mode == Mode::Running {
        g.th[me].block = Block::None;
        g.th[me].notified = false;
    }
}

pub fn task_notify(id: usize) {
    let me = tid();
    if me == NONE || is_unwinding() {
        return;
    }
    let _u = Untrack::new();
    let s = sched();
    if me == SEQ {
        s.lock().seq_notifies.push(id);
        return;
    }
    s.managed_point(me, PointKind::Normal, "task_notify", id);
    let mut g = s.lock();
    if g.mode != Mode::Running {
        return;
    }
    if id < g.n {
        g.th[id].notified = true;
        if g.th[id].block == Block::Park {
            g.th[id].block = Block::None;
        }
        g.epoch += 1;
    }
}

pub fn current_task_id() -> usize {
    let me = tid();
    if me < MAXT {
        me
    } else {
        0
    }
}

/// Task id for a futures call on handle slot `slot`: the managed thread's id,
/// or, in sequential mode, an id that tells the waiter apart (100+slot for a
/// stream poll, 200+slot for a sink call) so that a notification can be
/// attributed to the task that is waiting for it.
pub fn task_id_for(sink: bool, slot: u8) -> usize {
    let me = tid();
    if me < MAXT {
        me
    } else if sink {
        200 + slot as usize
    } else {
        100 + slot as usize
    }
}

pub fn take_seq_notifies() -> Vec<usize> {
    std::mem::take(&mut sched().lock().seq_notifies)
}

/// Reset memory bookkeeping at the start of an execution (before set-up).
pub fn exec_begin() {
    let s = sched();
    let mut g = s.lock();
    g.freed.clear();
    g.live.clear();
    g.faults.clear();
    g.owners.clear();
    g.flags.clear();
    g.tick = 0;
    g.epoch = 1;
    g.sleeps_total = 0;
    g.seq_notifies.clear();
    g.mode = Mode::Idle;
    drop(g);
    valloc::defer_begin();
}

pub struct MemReport {
    pub faults: Vec<MemFault>,
    pub crate_live_blocks: usize,
    pub crate_live_bytes: usize,
    pub sleeps_total: u32,
}

/// End of an execution: report, then release the quarantine.
pub fn exec_end() -> MemReport {
    let s = sched();
    let mut g = s.lock();
    if valloc::take_double_frees() > 0 && !g.faults.contains(&MemFault::DoubleFree) {
        g.faults.push(MemFault::DoubleFree);
    }
    let r = MemReport {
        faults: std::mem::take(&mut g.faults),
        crate_live_blocks: g.live.len(),
        crate_live_bytes: g.live.values().sum(),
        sleeps_total: g.sleeps_total,
    };
    g.freed.clear();
    // whatever the queue leaked is dead now (every handle is gone): give it
    // back so that millions of executions do not exhaust memory. All crate
    // blocks have alignment <= 16, which is all the allocator needs to know.
    let leaked: Vec<(usize, usize)> = g.live.drain().collect();
    drop(g);
    valloc::defer_end();
    for (p, bytes) in leaked {
        unsafe {
            std::alloc::dealloc(
                p as *mut u8,
                std::alloc::Layout::from_size_align_unchecked(bytes, 8),
            );
        }
    }
    r
}

pub fn crate_live() -> (usize, usize) {
    let g = sched().lock();
    (g.live.len(), g.live.values().sum())
}

/// Run `f` on the calling (main) thread in sequential mode. Returns Err(())
/// if the call was abandoned because it would block / spin for ever.
pub fn seq_call<R>(f: impl FnOnce() -> R) -> Result<R, Option<String>> {
    let prev = TID.with(|t| t.replace(SEQ));
    let s = sched();
    {
        let mut g = s.lock();
        g.seq_steps = 0;
        g.seq_spin_sites.clear();
    }
    set_thread_runtime(Some(s));
    valloc::set_defer_thread(true);
    UNWINDING.with(|u| u.set(false));
    let r = panic::catch_unwind(AssertUnwindSafe(f));
    TID.with(|t| t.set(prev));
    match r {
        Ok(v) => Ok(v),
        Err(p) => {
            UNWINDING.with(|u| u.set(false));
            // a sequential caller that unwound may have left model locks
            let mut g = s.lock();
            g.owners.retain(|(_, o)| *o != SEQ);
            drop(g);
            if p.is::<AbortToken>() {
                Err(None)
            } else {
                Err(Some(take_last_panic().unwrap_or_else(|| "panic".into())))
            }
        }
    }
}

pub fn seq_enter() {
    TID.with(|t| t.set(SEQ));
    set_thread_runtime(Some(sched()));
    valloc::set_defer_thread(true);
}

pub fn set_seq_horizon(h: u64) {
    sched().lock().seq_horizon = h;
}

pub type Body = Box<dyn FnOnce() + Send + 'static>;

struct Pool {
    jobs: Vec<Mutex<Option<Body>>>,
    job_parkers: Vec<Parker>,
    latch: Mutex<usize>,
    latch_cv: Condvar,
}

static POOL: OnceLock<Pool> = OnceLock::new();

fn pool() -> &'static Pool {
    POOL.get_or_init(|| {
        let p = Pool {
            jobs: (0..MAXT).map(|_| Mutex::new(None)).collect(),
            job_parkers: (0..MAXT).map(|_| Parker::new()).collect(),
            latch: Mutex::new(0),
            latch_cv: Condvar::new(),
        };
        for i in 0..MAXT {
            std::thread::Builder::new()
                .stack_size(1024 * 1024)
                .spawn(move || worker_main(i))
                .expect("spawn");
        }
        p
    })
}

fn worker_main(i: usize) {
    TID.with(|t| t.set(i));
    set_thread_runtime(Some(sched()));
    valloc::set_defer_thread(true);
    let s = sched();
    loop {
        let p = pool();
        p.job_parkers[i].park();
        let body = p.jobs[i].lock().unwrap().take();
        let body = match body {
            Some(b) => b,
            None => continue,
        };
        UNWINDING.with(|u| u.set(false));
        let _ = take_last_panic();
        let r = panic::catch_unwind(AssertUnwindSafe(|| {
            s.wait_for_baton(i);
            body();
        }));
        {
            // thread exit
            let _u = Untrack::new();
            let mut g = s.lock();
            if let Err(pl) = r {
                if !pl.is::<AbortToken>() {
                    let msg = take_last_panic().unwrap_or_else(|| "panic".into());
                    g.panics.push((i, msg));
                }
            }
            UNWINDING.with(|u| u.set(false));
            g.th[i].finished = true;
            g.owners.retain(|(_, o)| *o != i);
            match g.mode {
                Mode::Abort => s.abort_next(g),
                Mode::Running => {
                    g.tick += 1;
                    s.switch(i, g, PointKind::Exit)
                }
                Mode::Idle => {}
            }
        }
        let mut l = p.latch.lock().unwrap();
        *l -= 1;
        if *l == 0 {
            p.latch_cv.notify_all();
        }
    }
}

/// Run one execution of `bodies` as managed threads under the choice prefix.
pub fn run_threads(bodies: Vec<Body>, opts: &ExecOpts) -> ExecRecord {
    let s = sched();
    let n = bodies.len();
    assert!(n <= MAXT);
    {
        let mut g = s.lock();
        g.mode = Mode::Running;
        g.n = n;
        g.th = (0..n).map(|_| Th::new()).collect();
        if let Some(p) = opts.solo {
            g.th[p].solo = true;
        }
        g.cur = NONE;
        g.steps = 0;
        g.choices.clear();
        g.prefix = opts.prefix.clone();
        g.expect_n = opts.expect_n.clone();
        g.horizon = opts.horizon;
        g.status = None;
        g.solo = opts.solo;
        g.solo_running = false;
        g.frozen = false;
        g.tracing = opts.trace;
        g.hashing = opts.hash;
        g.trace.clear();
        g.trace_hash = 0xcbf29ce484222325;
        g.names.clear();
        g.panics.clear();
        g.switches = 0;
        g.abort_queue.clear();
        g.cas_weak_seen = 0;
        g.spurious = opts.spurious;
    }
    // persistent worker threads: worker i is always managed thread i
    let pool = pool();
    {
        let mut l = pool.latch.lock().unwrap();
        *l = n;
    }
    for (i, body) in bodies.into_iter().enumerate() {
        *pool.jobs[i].lock().unwrap() = Some(body);
        pool.job_parkers[i].unpark();
    }
    // first choice: which thread starts (free)
    {
        let g = s.lock();
        s.switch(NONE, g, PointKind::Blocked);
    }
    let mut runaway = false;
    {
        let t0 = std::time::Instant::now();
        let mut l = pool.latch.lock().unwrap();
        while *l > 0 {
            let (g2, _) = pool
                .latch_cv
                .wait_timeout(l, std::time::Duration::from_millis(500))
                .unwrap();
            l = g2;
            if *l > 0 && t0.elapsed().as_secs() >= 30 {
                // executions take milliseconds; the step horizon bounds the
                // explored phase, so this is cleanup that never ends
                runaway = true;
                break;
            }
        }
    }
    let mut g = s.lock();
    if !runaway {
        g.mode = Mode::Idle;
    }
    ExecRecord {
        status: g.status.take().unwrap_or(Status::Complete),
        choices: std::mem::take(&mut g.choices),
        steps: g.steps,
        trace_hash: g.trace_hash,
        trace: std::mem::take(&mut g.trace),
        panics: std::mem::take(&mut g.panics),
        switches: g.switches,
        cas_weak_points: g.cas_weak_seen,
        runaway,
    }
}
