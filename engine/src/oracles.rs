//! Oracles: judge one execution from its recorded history, payload ledger,
//! memory report and terminal scheduler state. Each finding is tagged with
//! exactly one property id and a schedule-independent signature.

use crate::ops::*;
use crate::payload::PFault;
use crate::rt::{Block, MemFault, Status};
use crate::scenario::{Outcome, Post, Scn, PROBE_BASE};
use std::collections::{BTreeMap, BTreeSet};

#[derive(Clone, Debug)]
pub struct Finding {
    pub prop: &'static str,
    pub sig: String,
    pub detail: String,
}

fn f(prop: &'static str, sig: String, detail: String) -> Finding {
    Finding { prop, sig, detail }
}

fn is_recv(k: OpK) -> bool {
    matches!(
        k,
        OpK::TryRecv | OpK::Recv | OpK::TryRecvView | OpK::RecvView | OpK::PollS | OpK::IterNext
    )
}
fn is_send(k: OpK) -> bool {
    matches!(k, OpK::TrySend | OpK::StartSend)
}
fn accepted(e: &Ev) -> bool {
    is_send(e.k) && matches!(e.res, Res::Ok | Res::Ready)
}
fn is_removal(e: &Ev) -> bool {
    matches!(e.k, OpK::DropH | OpK::Unsub) || (e.k == OpK::IterNext && e.res == Res::End && false)
}

pub struct View<'a> {
    pub scn: &'a Scn,
    pub out: &'a Outcome,
    pub sender_slots: BTreeSet<u8>,
    pub recv_slots: BTreeSet<u8>,
    /// stream -> creation stamp (0 for the initial stream)
    pub created: BTreeMap<u8, u64>,
    /// streams created by a managed thread (concurrently with traffic)
    pub dynamic: BTreeSet<u8>,
    pub fl: String,
}

impl<'a> View<'a> {
    pub fn new(scn: &'a Scn, out: &'a Outcome) -> View<'a> {
        let mut sender_slots = BTreeSet::new();
        let mut recv_slots = BTreeSet::new();
        sender_slots.insert(0u8);
        recv_slots.insert(1u8);
        let mut created = BTreeMap::new();
        let mut dynamic = BTreeSet::new();
        created.insert(0u8, 0u64);
        // stream_of is fixed per slot at creation; slot 1 = stream 0
        for e in &out.hist {
            match e.k {
                OpK::CloneH => {
                    let dst = e.val as u8;
                    if sender_slots.contains(&e.h) {
                        sender_slots.insert(dst);
                    } else {
                        recv_slots.insert(dst);
                    }
                }
                OpK::AddStream | OpK::AddStreamWith => {
                    let dst = e.val as u8;
                    recv_slots.insert(dst);
                    created.insert(dst, e.end);
                    if e.th != MAIN {
                        dynamic.insert(dst);
                    }
                }
                _ => {}
            }
        }
        let fl = format!(
            "{}{}",
            match scn.cfg.fl {
                Flavour::B => "bcast",
                Flavour::M => "mpmc",
            },
            if scn.cfg.fut { "-fut" } else { "" }
        );
        View {
            scn,
            out,
            sender_slots,
            recv_slots,
            created,
            dynamic,
            fl,
        }
    }

    fn stream_of_slot(&self, slot: u8) -> u8 {
        // replay the static assignment: clone copies, add_stream = dst
        let mut so = [0u8; NSLOTS];
        for e in &self.out.hist {
            match e.k {
                OpK::CloneH => so[e.val as usize] = so[e.h as usize],
                OpK::AddStream | OpK::AddStreamWith => so[e.val as usize] = e.val as u8,
                _ => {}
            }
        }
        so[slot as usize]
    }

    fn streams(&self) -> Vec<u8> {
        self.created.keys().copied().collect()
    }

    /// stamp at which the removal of the last handle of `s` started / ended
    /// (None if some handle of the stream is never removed)
    fn stream_removed(&self, s: u8) -> Option<(u64, u64)> {
        let mut lo = 0u64;
        let mut hi = 0u64;
        for &slot in &self.recv_slots {
            if self.stream_of_slot(slot) != s {
                continue;
            }
            // a slot may be re-used only by convert ops, which keep it alive
            let rem = self
                .out
                .hist
                .iter()
                .filter(|e| e.h == slot && matches!(e.k, OpK::DropH | OpK::Unsub))
                .last();
            match rem {
                None => {
                    // consuming iterators end the handle too
                    let it = self
                        .out
                        .hist
                        .iter()
                        .filter(|e| e.h == slot && e.k == OpK::IterNext && e.res == Res::End)
                        .last();
                    let consuming = self
                        .scn
                        .threads
                        .iter()
                        .flatten()
                        .chain(self.scn.prefix.iter())
                        .any(|o| o.h == slot && matches!(o.k, OpK::IterAll | OpK::IterWithAll));
                    match (it, consuming) {
                        (Some(e), true) => {
                            lo = lo.max(e.start);
                            hi = hi.max(e.end);
                        }
                        _ => return None,
                    }
                }
                Some(e) => {
                    lo = lo.max(e.start);
                    hi = hi.max(e.end);
                }
            }
        }
        Some((lo, hi))
    }
}

fn fmt_ev(e: &Ev) -> String {
    format!(
        "[{}..{}] t{} {:?} h{} s{} v{} -> {:?}",
        e.start,
        e.end,
        if e.th == MAIN {
            "M".to_string()
        } else {
            e.th.to_string()
        },
        e.k,
        e.h,
        e.stream,
        e.val,
        e.res
    )
}

pub fn judge(scn: &Scn, out: &Outcome) -> Vec<Finding> {
    let v = View::new(scn, out);
    let mut fs: Vec<Finding> = Vec::new();
    let hist = &out.hist;
    let n = out.n as usize;
    let fl = v.fl.clone();
    let complete = out.rec.status == Status::Complete && out.prefix_problem.is_none();

    // ------------------------------------------------------------ machinery
    if let Some(p) = &out.prefix_problem {
        fs.push(f("MACHINERY", format!("prefix|{}", p), p.clone()));
    }
    if let Status::Diverged(m) = &out.rec.status {
        fs.push(f("MACHINERY", "replay-diverged".into(), m.clone()));
    }

    // ------------------------------------------------------- panics (C09/C15)
    for e in hist {
        if let Res::Panic(m) = &e.res {
            let prop = if scn.cfg.fut { "C15" } else { "C09" };
            let short: String = m.split(" @ ").next().unwrap_or("").chars().take(60).collect();
            fs.push(f(
                prop,
                format!("{}|panic|op={:?}|{}|msg={}", prop, e.k, fl, short),
                fmt_ev(e),
            ));
        }
    }
    for (t, m) in &out.rec.panics {
        fs.push(f(
            "MACHINERY",
            format!("thread-panic|{}", m.chars().take(80).collect::<String>()),
            format!("thread {} panicked outside a guarded call: {}", t, m),
        ));
    }

    // --------------------------------------------------------- memory (C16)
    for m in &out.mem.faults {
        let sig = match m {
            MemFault::UseAfterFree { kind } => format!("C16|use-after-free|{}|{}", kind, fl),
            MemFault::DoubleFree => format!("C16|double-free|{}", fl),
            MemFault::UnknownFree => format!("C16|free-of-unknown-block|{}", fl),
        };
        fs.push(f("C16", sig, format!("{:?}", m)));
    }

    // ------------------------------------------------- payload ledger (C04/05)
    for p in &out.ledger.faults {
        let (prop, sig) = match p {
            PFault::Corrupt { at } => ("C04", format!("C04|corrupt-value|at={}|{}", at, fl)),
            PFault::DeadAccess { at } => ("C04", format!("C04|dead-value|at={}|{}", at, fl)),
            PFault::ChangedDuring { at } => {
                ("C04", format!("C04|value-replaced-during|at={}|{}", at, fl))
            }
            PFault::DroppedWhileBorrowed => ("C04", format!("C04|dropped-while-borrowed|{}", fl)),
            PFault::DoubleDrop => ("C05", format!("C05|double-drop|{}", fl)),
        };
        fs.push(f(prop, sig, format!("{:?}", p)));
        if *p == PFault::DroppedWhileBorrowed {
            fs.push(f(
                "C05",
                format!("C05|dropped-while-a-consumer-is-using-it|{}", fl),
                format!("{:?}", p),
            ));
        }
    }
    if complete && out.teardown_done && !out.ledger.never_dropped.is_empty() {
        fs.push(f(
            "C05",
            format!("C05|never-dropped|{}", fl),
            format!(
                "{} payload instance(s) never dropped after the last handle went away: (serial,id) {:?}",
                out.ledger.never_dropped.len(),
                &out.ledger.never_dropped[..out.ledger.never_dropped.len().min(6)]
            ),
        ));
    }
    for h in &out.hfaults {
        match h {
            HFault::RefusedSendReturnedOtherInstance => fs.push(f(
                "C01",
                format!("C01|refused-send-returned-other-instance|{}", fl),
                format!("{:?}", h),
            )),
            HFault::NotReadyReturnedOtherInstance => fs.push(f(
                "C15",
                format!("C15|notready-returned-other-instance|{}", fl),
                format!("{:?}", h),
            )),
        }
    }

    // ----------------------------------------------------------- leak (C17)
    if complete && out.teardown_done {
        if let Some((a, b)) = out.growth {
            // healthy: at most one batch (21 retirements) more or less
            if b > a + 40 {
                fs.push(f(
                    "C17",
                    format!("C17|memory-grows-after-concurrent-churn|{}", fl),
                    format!(
                        "live crate blocks after 16 add_stream/drop cycles with the fixed handles operating: {}, after 16 more: {} (reclamation no longer runs)",
                        a, b
                    ),
                ));
            }
        }
        if out.mem.crate_live_blocks > 0 || out.live_delta.1 != 0 {
            fs.push(f(
                "C17",
                format!("C17|memory-live-after-last-handle-dropped|{}", fl),
                format!(
                    "crate blocks live: {} ({} bytes); allocator delta: {} bytes in {} blocks",
                    out.mem.crate_live_blocks,
                    out.mem.crate_live_bytes,
                    out.live_delta.0,
                    out.live_delta.1
                ),
            ));
        }
    }

    // ------------------------------------------------------------ hang etc.
    match &out.rec.status {
        Status::Hang(list)
            if scn.hang_probe.is_some()
                && list.iter().all(|(_, b)| matches!(b, Block::Park))
                && hist
                    .iter()
                    .any(|e| e.k == OpK::TrySend && e.val == crate::scenario::HANG_PROBE_VAL && e.res != Res::Ok) =>
        {
            // only tasks are parked and the probe send was refused too: the
            // queue is full for a reason (a stream that nobody drains)
        }
        Status::Hang(list) => {
            let lbl = scn.cfg.label();
            let waitlbl = lbl.rsplit('-').next().unwrap_or("").to_string();
            let base = scn.name.split('/').next().unwrap_or("").to_string();
            let all_recv_gone = v.recv_slots.iter().all(|&s| {
                hist.iter().any(|e| {
                    e.h == s && matches!(e.k, OpK::DropH | OpK::Unsub) && e.start < out.t_join
                })
            });
            let mut blocked: Vec<String> = Vec::new();
            let mut props: Vec<&'static str> = Vec::new();
            let mut details: Vec<String> = Vec::new();
            for (t, b) in list {
                let cur = out.cur_ops[*t].map(|(o, _)| o);
                let opk = cur.map(|o| o.k);
                let bk = match b {
                    Block::None => "none",
                    Block::Mutex(_) => "mutex",
                    Block::Cond(..) => "condvar",
                    Block::Park => "parked-task",
                    Block::Spin(_) => "spin-on-unchanged-memory",
                    Block::Flag(_) => "harness-flag",
                };
                if matches!(b, Block::Flag(_)) {
                    // waiting for a hand-off from a thread that is itself stuck
                    continue;
                }
                let prop: &'static str = match opk {
                    Some(OpK::Recv) | Some(OpK::RecvView) | Some(OpK::RecvAll)
                    | Some(OpK::IterAll) | Some(OpK::IterWithAll) => {
                        if scn.cfg.fut || scn.hang_prop == "C07" {
                            scn.hang_prop
                        } else {
                            "C08"
                        }
                    }
                    Some(OpK::SinkSend) => {
                        if all_recv_gone {
                            "C13"
                        } else if matches!(scn.hang_prop, "C11" | "C10" | "C12") {
                            scn.hang_prop
                        } else {
                            "C14"
                        }
                    }
                    Some(OpK::StreamNext) | Some(OpK::StreamAll) => {
                        if scn.hang_prop == "C07" {
                            "C07"
                        } else {
                            "C14"
                        }
                    }
                    _ => scn.hang_prop,
                };
                if !props.contains(&prop) {
                    props.push(prop);
                }
                blocked.push(format!(
                    "{}:{}",
                    opk.map(|k| format!("{:?}", k)).unwrap_or("-".into()),
                    bk
                ));
                details.push(format!("thread {} never finishes: {:?} while in {:?}", t, b, cur));
            }
            blocked.sort();
            for prop in props {
                fs.push(f(
                    prop,
                    format!(
                        "{}|hang|{}|{}|wait={}|blocked=[{}]",
                        prop,
                        base,
                        fl,
                        waitlbl,
                        blocked.join(",")
                    ),
                    details.join("; "),
                ));
            }
        }
        Status::Horizon => {
            fs.push(f(
                scn.hang_prop,
                format!("{}|livelock-step-horizon|{}", scn.hang_prop, fl),
                format!("execution exceeded {} steps", scn.horizon),
            ));
        }
        _ => {}
    }
    if let Some(p) = &out.post_problem {
        fs.push(f(
            "C06",
            format!("C06|post-join-probe-stuck|{}", fl),
            p.clone(),
        ));
    }

    // ------------------------------------------------------------ C01 / C02
    let acc_events: Vec<&Ev> = hist.iter().filter(|e| accepted(e)).collect();
    let acc_ids: BTreeSet<u32> = acc_events.iter().map(|e| e.val).collect();
    let sends_all_drop_after = |_s: u8| true;
    let _ = sends_all_drop_after;
    let mut per_stream: BTreeMap<u8, Vec<&Ev>> = BTreeMap::new();
    for e in hist {
        if is_recv(e.k) {
            if let Res::Val(_) = e.res {
                per_stream.entry(e.stream).or_default().push(e);
            }
        }
    }
    for (s, evs) in &per_stream {
        let mut seen = BTreeSet::new();
        for e in evs {
            let id = match e.res {
                Res::Val(i) => i,
                _ => unreachable!(),
            };
            if !acc_ids.contains(&id) {
                let refused = hist
                    .iter()
                    .any(|x| is_send(x.k) && x.val == id && !accepted(x));
                fs.push(f(
                    "C01",
                    format!(
                        "C01|delivered-{}|{}",
                        if refused { "refused-value" } else { "unsent-value" },
                        fl
                    ),
                    format!("stream {}: {}", s, fmt_ev(e)),
                ));
            }
            if !seen.insert(id) {
                fs.push(f(
                    "C01",
                    format!("C01|delivered-twice-on-a-stream|{}", fl),
                    format!("stream {}: id {} again in {}", s, id, fmt_ev(e)),
                ));
            }
        }
    }
    // completeness on streams that were drained to the end after the join
    if complete && out.post_done && scn.post != Post::None {
        for s in v.streams() {
            if v.dynamic.contains(&s) {
                continue;
            }
            let created = v.created[&s];
            // drained: the post phase issued receives on it and ended with End
            let post_recvs: Vec<&Ev> = hist
                .iter()
                .filter(|e| e.stream == s && is_recv(e.k) && e.start > out.t_join)
                .collect();
            let drained = post_recvs.last().map(|e| e.res == Res::End).unwrap_or(false);
            if post_recvs.is_empty() {
                continue; // stream was removed before the join
            }
            let expected: BTreeSet<u32> = acc_events
                .iter()
                .filter(|e| e.start > created)
                .map(|e| e.val)
                .collect();
            let got: BTreeSet<u32> = per_stream
                .get(&s)
                .map(|v| {
                    v.iter()
                        .filter_map(|e| if let Res::Val(i) = e.res { Some(i) } else { None })
                        .collect()
                })
                .unwrap_or_default();
            let missing: Vec<u32> = expected.difference(&got).copied().collect();
            if !missing.is_empty() {
                fs.push(f(
                    "C01",
                    format!(
                        "C01|accepted-value-never-delivered|drain-ended={}|{}",
                        if drained { "end" } else { "empty" },
                        fl
                    ),
                    format!("stream {} never delivered ids {:?}", s, missing),
                ));
            }
        }
    }
    // order graph
    {
        let ids: Vec<u32> = acc_ids.iter().copied().collect();
        let idx: BTreeMap<u32, usize> = ids.iter().enumerate().map(|(i, x)| (*x, i)).collect();
        let m = ids.len();
        let mut reach = vec![vec![false; m]; m];
        let mut why: BTreeMap<(usize, usize), String> = BTreeMap::new();
        let mut add = |a: u32, b: u32, w: String, reach: &mut Vec<Vec<bool>>| {
            if let (Some(&i), Some(&j)) = (idx.get(&a), idx.get(&b)) {
                if i != j && !reach[i][j] {
                    reach[i][j] = true;
                    why.insert((i, j), w);
                }
            }
        };
        // per consumer handle
        let mut per_handle: BTreeMap<u8, Vec<u32>> = BTreeMap::new();
        for e in hist {
            if is_recv(e.k) {
                if let Res::Val(i) = e.res {
                    per_handle.entry(e.h).or_default().push(i);
                }
            }
        }
        for (h, seq) in &per_handle {
            // a strict order has no repeats: the same consumer getting a value again
            let mut seen_h = BTreeSet::new();
            for id in seq {
                if !seen_h.insert(*id) {
                    fs.push(f(
                        "C02",
                        format!("C02|consumer-receives-a-value-again|{}", fl),
                        format!("consumer h{} received {:?}", h, seq),
                    ));
                    break;
                }
            }
            for w in seq.windows(2) {
                add(w[0], w[1], format!("consumer h{} received {} before {}", h, w[0], w[1]), &mut reach);
            }
        }
        // per producer handle, and real time
        for a in &acc_events {
            for b in &acc_events {
                if a.val != b.val && a.end < b.start {
                    let w = if a.h == b.h {
                        format!("producer h{} sent {} before {}", a.h, a.val, b.val)
                    } else {
                        format!("send of {} returned before send of {} began", a.val, b.val)
                    };
                    add(a.val, b.val, w, &mut reach);
                }
            }
        }
        let direct = reach.clone();
        for k in 0..m {
            for i in 0..m {
                if reach[i][k] {
                    for j in 0..m {
                        if reach[k][j] {
                            reach[i][j] = true;
                        }
                    }
                }
            }
        }
        'cyc: for i in 0..m {
            for j in 0..m {
                if direct[i][j] && reach[j][i] {
                    fs.push(f(
                        "C02",
                        format!("C02|no-common-order|{}", fl),
                        format!(
                            "{} but {} is also (transitively) ordered before {}",
                            why.get(&(i, j)).cloned().unwrap_or_default(),
                            ids[j],
                            ids[i]
                        ),
                    ));
                    break 'cyc;
                }
            }
        }
    }

    // ------------------------------------------------------------------ C03
    // (needs complete histories: an abandoned execution has begun calls that
    // were never logged)
    for x in acc_events.iter().filter(|_| complete) {
        let t = x.end;
        for s in v.streams() {
            if v.dynamic.contains(&s) {
                continue;
            }
            let created = v.created[&s];
            if x.start <= created {
                continue;
            }
            // skip once the removal of the stream may have begun
            let removed_lo = v.stream_removed(s).map(|r| r.0);
            if let Some(lo) = removed_lo {
                if lo < t {
                    continue;
                }
            }
            let a = acc_events
                .iter()
                .filter(|e| e.end <= t && e.start > created)
                .count();
            let c = per_stream
                .get(&s)
                .map(|v| v.iter().filter(|e| e.start < t).count())
                .unwrap_or(0);
            if a > c + n {
                fs.push(f(
                    "C03",
                    format!("C03|more-than-N-unconsumed|{}", fl),
                    format!(
                        "when {} returned, {} sends had been accepted but stream {} had begun only {} receives (N={})",
                        fmt_ev(x), a, s, c, n
                    ),
                ));
                break;
            }
        }
    }

    // ------------------------------------------------------------------ C06
    if complete && out.post_done && scn.post == Post::Quiesce {
        let probe_ok = hist
            .iter()
            .filter(|e| e.start > out.t_join && e.k == OpK::TrySend && e.res == Res::Ok)
            .count();
        let probe_ran = hist
            .iter()
            .any(|e| e.start > out.t_join && e.k == OpK::TrySend);
        let total_acc_before: Vec<&&Ev> = acc_events.iter().filter(|e| e.end <= out.t_join).collect();
        let mut outstanding: BTreeMap<u8, i64> = BTreeMap::new();
        let mut drained_cnt: BTreeMap<u8, usize> = BTreeMap::new();
        for s in v.streams() {
            let post_recvs: Vec<&Ev> = hist
                .iter()
                .filter(|e| e.stream == s && is_recv(e.k) && e.start > out.t_join)
                .collect();
            if post_recvs.is_empty() {
                continue;
            }
            let d = post_recvs
                .iter()
                .filter(|e| matches!(e.res, Res::Val(_)))
                .count();
            drained_cnt.insert(s, d);
            let last = post_recvs.last().unwrap();
            if last.res != Res::End {
                fs.push(f(
                    "C06",
                    format!("C06|drain-does-not-reach-end|last={:?}|{}", last.res, fl),
                    format!("stream {}: after all senders were dropped: {}", s, fmt_ev(last)),
                ));
                if last.res == Res::Empty {
                    // every sender handle is gone and the stream is drained, yet
                    // the receive says "nothing yet" instead of reporting the end
                    fs.push(f(
                        "C07",
                        format!("C07|end-not-reported-after-all-senders-left|{}", fl),
                        format!("stream {}: after all senders were dropped: {}", s, fmt_ev(last)),
                    ));
                }
            }
            outstanding.insert(s, d as i64 - probe_ok as i64);
            if !v.dynamic.contains(&s) {
                let created = v.created[&s];
                let a = total_acc_before.iter().filter(|e| e.start > created).count();
                let c = per_stream
                    .get(&s)
                    .map(|v| v.iter().filter(|e| e.end <= out.t_join).count())
                    .unwrap_or(0);
                let model = a as i64 - c as i64;
                if model != d as i64 - probe_ok as i64 {
                    fs.push(f(
                        "C06",
                        format!("C06|quiescent-drain-count-differs-from-model|{}", fl),
                        format!(
                            "stream {}: model says {} outstanding (+{} probe sends), drained {}",
                            s, model, probe_ok, d
                        ),
                    ));
                }
            }
        }
        // every receiver handle left before the join: the model says Disconnected
        let all_gone = v.recv_slots.iter().all(|&sl| {
            hist.iter().any(|e| {
                e.h == sl && matches!(e.k, OpK::DropH | OpK::Unsub) && e.end <= out.t_join
            })
        });
        if probe_ran && all_gone {
            if let Some(e) = hist
                .iter()
                .find(|e| e.start > out.t_join && e.k == OpK::TrySend)
            {
                if !matches!(e.res, Res::Disc(_)) {
                    fs.push(f(
                        "C06",
                        format!("C06|quiescent-send-without-receivers-not-disconnected|{}", fl),
                        fmt_ev(e),
                    ));
                }
            }
        }
        if probe_ran && !outstanding.is_empty() {
            let maxo = outstanding.values().copied().max().unwrap_or(0).max(0);
            let expect = n as i64 - maxo;
            if expect != probe_ok as i64 {
                fs.push(f(
                    "C06",
                    format!(
                        "C06|quiescent-fill-count-differs-from-model|{}|{}",
                        if (probe_ok as i64) < expect { "fewer" } else { "more" },
                        fl
                    ),
                    format!(
                        "after the join {} sends were accepted before Full; model: N={} minus {} outstanding on the slowest stream = {}",
                        probe_ok, n, maxo, expect
                    ),
                ));
            }
        }
    }

    // ------------------------------------------------------------------ C07
    for e in hist {
        if !(is_recv(e.k) && e.res == Res::End) || !complete {
            continue;
        }
        let s = e.stream;
        if v.dynamic.contains(&s) {
            continue;
        }
        // (i) every sender handle's drop has started
        for &ss in &v.sender_slots {
            let created_after = hist
                .iter()
                .any(|x| x.k == OpK::CloneH && x.val as u8 == ss && x.start > e.end);
            if created_after {
                continue;
            }
            let dropped = hist
                .iter()
                .any(|x| x.h == ss && matches!(x.k, OpK::DropH | OpK::Unsub) && x.start < e.end);
            if !dropped {
                fs.push(f(
                    "C07",
                    format!("C07|end-reported-while-sender-alive|op={:?}|{}", e.k, fl),
                    format!("{} but sender h{} is still alive", fmt_ev(e), ss),
                ));
                break;
            }
        }
        // (ii) every accepted value has been claimed on this stream
        let created = v.created[&s];
        for a in &acc_events {
            if a.start <= created {
                continue;
            }
            let claimed = per_stream
                .get(&s)
                .map(|v| v.iter().any(|r| r.res == Res::Val(a.val) && r.start < e.end))
                .unwrap_or(false);
            if !claimed {
                fs.push(f(
                    "C07",
                    format!("C07|end-reported-while-value-undelivered|op={:?}|{}", e.k, fl),
                    format!(
                        "{} but accepted id {} had not been claimed on stream {}",
                        fmt_ev(e),
                        a.val,
                        s
                    ),
                ));
                break;
            }
        }
        // (iii) sticky
        for later in hist {
            if later.h == e.h && is_recv(later.k) && later.start > e.end && later.res != Res::End {
                fs.push(f(
                    "C07",
                    format!("C07|end-not-sticky|{}", fl),
                    format!("{} then {}", fmt_ev(e), fmt_ev(later)),
                ));
                break;
            }
        }
    }

    // ------------------------------------------------------------------ C10
    for &d in &v.dynamic {
        let ev = hist
            .iter()
            .find(|e| matches!(e.k, OpK::AddStream | OpK::AddStreamWith) && e.val as u8 == d)
            .unwrap();
        let parent = ev.stream;
        // the common order, when the history determines it
        let g: Option<Vec<u32>> = {
            let mut a: Vec<&&Ev> = acc_events.iter().collect();
            a.sort_by_key(|e| e.start);
            let serial = a.windows(2).all(|w| w[0].end < w[1].start);
            if serial {
                Some(a.iter().map(|e| e.val).collect())
            } else {
                None
            }
        };
        let sd: Vec<u32> = per_stream
            .get(&d)
            .map(|v| {
                let mut v: Vec<&&Ev> = v.iter().collect();
                v.sort_by_key(|e| e.start);
                v.iter()
                    .filter_map(|e| if let Res::Val(i) = e.res { Some(i) } else { None })
                    .collect()
            })
            .unwrap_or_default();
        let drained = complete
            && out.post_done
            && hist
                .iter()
                .filter(|e| e.stream == d && is_recv(e.k))
                .last()
                .map(|e| e.res == Res::End)
                .unwrap_or(false);
        if let (Some(g), true) = (g, drained) {
            if v.dynamic.contains(&parent) {
                continue;
            }
            let pc = v.created[&parent];
            let g: Vec<u32> = g
                .into_iter()
                .filter(|id| acc_events.iter().any(|e| e.val == *id && e.start > pc))
                .collect();
            let p = g.len() - sd.len().min(g.len());
            if sd.len() > g.len() || g[p..] != sd[..] {
                fs.push(f(
                    "C10",
                    format!("C10|new-stream-not-a-gapless-suffix|{}", fl),
                    format!("common order {:?}, new stream {} delivered {:?}", g, d, sd),
                ));
            } else {
                let lo = per_stream
                    .get(&parent)
                    .map(|v| v.iter().filter(|e| e.end < ev.start).count())
                    .unwrap_or(0);
                let hi = per_stream
                    .get(&parent)
                    .map(|v| v.iter().filter(|e| e.start < ev.end).count())
                    .unwrap_or(0);
                if p < lo || p > hi {
                    fs.push(f(
                        "C10",
                        format!(
                            "C10|new-stream-starts-{}-parent-position|{}",
                            if p < lo { "before" } else { "after" },
                            fl
                        ),
                        format!(
                            "new stream {} starts at index {} of {:?}; parent stream {} was at {}..{} during the call",
                            d, p, g, parent, lo, hi
                        ),
                    ));
                }
            }
        }
    }

    // ------------------------------------------------------------------ C11
    if complete {
        // unsubscribe truth table
        let mut by_stream: BTreeMap<u8, Vec<&Ev>> = BTreeMap::new();
        for e in hist {
            if e.k == OpK::Unsub && v.recv_slots.contains(&e.h) {
                by_stream.entry(v.stream_of_slot(e.h)).or_default().push(e);
            }
        }
        for (s, us) in &by_stream {
            let handles: Vec<u8> = v
                .recv_slots
                .iter()
                .copied()
                .filter(|&h| v.stream_of_slot(h) == *s)
                .collect();
            for u in us {
                let b = match u.res {
                    Res::Bool(b) => b,
                    _ => continue,
                };
                let mut lo = 0; // certainly alive during the whole call
                let mut hi = 0; // possibly alive at some point of the call
                for &h in &handles {
                    if h == u.h {
                        continue;
                    }
                    let (c_start, c_end) = if h == 1 {
                        (0, 0)
                    } else {
                        hist.iter()
                            .find(|e| {
                                matches!(e.k, OpK::CloneH | OpK::AddStream | OpK::AddStreamWith)
                                    && e.val as u8 == h
                            })
                            .map(|e| (e.start, e.end))
                            .unwrap_or((0, 0))
                    };
                    let rem = hist
                        .iter()
                        .find(|e| e.h == h && matches!(e.k, OpK::DropH | OpK::Unsub));
                    let (r_start, r_end) = rem.map(|e| (e.start, e.end)).unwrap_or((u64::MAX, u64::MAX));
                    if c_end <= u.start && r_start >= u.end {
                        lo += 1;
                    }
                    if c_start < u.end && r_end > u.start {
                        hi += 1;
                    }
                }
                if b && lo >= 1 {
                    fs.push(f(
                        "C11",
                        format!("C11|unsubscribe-true-but-not-last|{}", fl),
                        format!("{}: {} other handle(s) of stream {} alive", fmt_ev(u), lo, s),
                    ));
                }
                if !b && hi == 0 {
                    fs.push(f(
                        "C11",
                        format!("C11|unsubscribe-false-but-last|{}", fl),
                        format!("{}: no other handle of stream {} alive", fmt_ev(u), s),
                    ));
                }
            }
            // all handles leave via unsubscribe and nobody was told "last"
            let all_unsub = handles.iter().all(|h| us.iter().any(|u| u.h == *h));
            let bools: Vec<bool> = us
                .iter()
                .filter_map(|u| if let Res::Bool(b) = u.res { Some(b) } else { None })
                .collect();
            if all_unsub && bools.len() == handles.len() && !bools.is_empty() {
                let trues = bools.iter().filter(|b| **b).count();
                if trues != 1 {
                    fs.push(f(
                        "C11",
                        format!("C11|unsubscribe-last-reported-{}-times|{}", trues, fl),
                        format!(
                            "stream {}: every handle left through unsubscribe: {:?}",
                            s,
                            us.iter().map(|e| fmt_ev(e)).collect::<Vec<_>>()
                        ),
                    ));
                }
            }
        }
    }

    // ------------------------------------------------------------------ C13
    if complete {
        let mut gone_at: Option<u64> = Some(0);
        for &r in &v.recv_slots {
            let rem = hist
                .iter()
                .filter(|e| e.h == r && matches!(e.k, OpK::DropH | OpK::Unsub))
                .last();
            match (rem, gone_at) {
                (Some(e), Some(g)) => gone_at = Some(g.max(e.end)),
                _ => gone_at = None,
            }
        }
        if let Some(g) = gone_at {
            for e in hist {
                if is_send(e.k) && e.start > g {
                    let bad = match &e.res {
                        Res::Disc(_) | Res::SinkErr(_) => None,
                        Res::Ok | Res::Ready => Some("accepted"),
                        Res::Full(_) => Some("Full"),
                        Res::NotReadyMsg(_) => Some("NotReady(msg)"),
                        _ => None,
                    };
                    if let Some(b) = bad {
                        fs.push(f(
                            "C13",
                            format!("C13|send-after-last-receiver-dropped|returned={}|op={:?}|{}", b, e.k, fl),
                            fmt_ev(e),
                        ));
                    }
                }
            }
        }
    }

    // ------------------------------------------------------------------ C15
    for e in hist {
        if matches!(e.k, OpK::PollS | OpK::StartSend | OpK::PollComplete) {
            if e.st.sleeps > 0 || e.st.cond_waits > 0 || e.st.spin_blocks > 0 {
                let what = if e.st.sleeps > 0 {
                    "sleeps"
                } else if e.st.cond_waits > 0 {
                    "blocks-on-condvar"
                } else {
                    "spins-on-unchanged-memory"
                };
                fs.push(f(
                    "C15",
                    format!("C15|waits-inside-call|op={:?}|{}|res={}|{}", e.k, what,
                        match e.res { Res::NotReady => "NotReady", Res::Blocked => "Blocked", Res::Val(_) => "Value", _ => "other" }, fl),
                    format!("{} stats {:?}", fmt_ev(e), e.st),
                ));
            }
        }
        if e.k == OpK::StartSend {
            if let Res::NotReadyMsg(id) = e.res {
                if id != e.val {
                    fs.push(f(
                        "C15",
                        format!("C15|notready-returned-other-message|{}", fl),
                        fmt_ev(e),
                    ));
                }
            }
        }
    }

    // ------------------------------------------------------------------ C18
    // the prober of a solo scenario; in every other scenario on a queue whose
    // wait strategy needs no notification, every try operation of a managed
    // thread (its own steps are counted whatever the others do in between)
    let no_notify = !scn.cfg.fut && matches!(scn.cfg.wait, WaitK::Busy | WaitK::Yield(..));
    if scn.solo.is_some() || no_notify {
        let kmax = 64 + 16 * v.streams().len() as u32;
        for e in hist.iter().filter(|e| match scn.solo {
            Some(p) => e.th as usize == p,
            None => e.th != MAIN,
        }) {
            if !matches!(e.k, OpK::TrySend | OpK::TryRecv | OpK::TryRecvView) {
                continue;
            }
            let st = e.st;
            let mut why = Vec::new();
            if st.steps > kmax {
                why.push("too-many-steps");
            }
            if st.yields > 0 {
                why.push("yields");
            }
            if st.sleeps > 0 {
                why.push("sleeps");
            }
            if st.spin_marks > 0 || st.spin_blocks > 0 {
                why.push("spins");
            }
            if st.cond_waits > 0 || st.lock_waits > 0 {
                why.push("blocks");
            }
            if !why.is_empty() {
                fs.push(f(
                    "C18",
                    format!("C18|try-op-waits|op={:?}|{}|{}", e.k, why.join("+"), fl),
                    format!("{} stats {:?}", fmt_ev(e), st),
                ));
            }
        }
    }

    let _ = (PROBE_BASE, is_removal as fn(&Ev) -> bool);
    fs
}

/// Schedule-independent digest of what the execution observed (for counting
/// distinct outcomes).
pub fn observation(out: &Outcome) -> u64 {
    let mut h: u64 = 0xcbf29ce484222325;
    let mut mix = |x: u64| {
        h ^= x;
        h = h.wrapping_mul(0x100000001b3);
    };
    let mut evs: Vec<&Ev> = out.hist.iter().collect();
    evs.sort_by_key(|e| (e.th, e.start));
    for e in evs {
        mix(e.th as u64);
        mix(e.k as u64);
        mix(e.h as u64);
        let r = match &e.res {
            Res::Ok => 1,
            Res::Full(i) => 2 + ((*i as u64) << 8),
            Res::Disc(i) => 3 + ((*i as u64) << 8),
            Res::Val(i) => 4 + ((*i as u64) << 8),
            Res::Empty => 5,
            Res::End => 6,
            Res::Bool(b) => 7 + ((*b as u64) << 8),
            Res::Unit => 8,
            Res::NotReady => 9,
            Res::NotReadyMsg(i) => 10 + ((*i as u64) << 8),
            Res::Ready => 11,
            Res::SinkErr(i) => 12 + ((*i as u64) << 8),
            Res::Converted(b) => 13 + ((*b as u64) << 8),
            Res::Blocked => 14,
            Res::Panic(_) => 15,
        };
        mix(r);
    }
    mix(match &out.rec.status {
        Status::Complete => 1,
        Status::Hang(_) => 2,
        Status::Horizon => 3,
        Status::Diverged(_) => 4,
        Status::Fault => 5,
    });
    h
}

pub fn dump_history(out: &Outcome) -> Vec<String> {
    out.hist.iter().map(fmt_ev).collect()
}
