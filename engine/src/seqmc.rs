//! E2: exhaustive single-threaded API histories of the real handles against
//! the reference model (one append-only log, one cursor per stream, a window
//! of N, a sender count), each closed by every teardown order.

use crate::catalog::Tier;
use crate::ops::OpK::*;
use crate::ops::*;
use crate::payload::{ledger_report, ledger_reset, PFault};
use crate::rt::{self, MemFault};
use crate::valloc::{self, tracked};
use std::collections::{BTreeMap, BTreeSet};
use std::time::{Duration, Instant};

#[derive(Clone, Copy, PartialEq, Eq, Debug, PartialOrd, Ord)]
enum Kind {
    S,
    R,
    U,
}

#[derive(Clone, Debug)]
struct MStream {
    cursor: usize,
    handles: usize,
}

#[derive(Clone, Debug)]
struct MState {
    n: usize,
    log: Vec<u32>,
    streams: BTreeMap<u8, MStream>,
    senders: usize,
    no_receivers: bool,
    slots: [Option<(Kind, u8)>; NSLOTS],
    next_val: u32,
    /// fresh stream ids (a slot number is reused while an older stream that
    /// was first held in that slot may still be alive)
    next_sid: u8,
    /// futures tasks the model knows to be parked (NotReady was returned)
    stream_wait: [bool; NSLOTS],
    sink_wait: [bool; NSLOTS],
    /// task ids that the last operation must have notified
    expect_notify: Vec<usize>,
}

const SENDER_SLOTS: [u8; 3] = [0, 2, 3];
const RECV_SLOTS: [u8; 4] = [1, 4, 5, 6];

#[derive(Clone, Copy, Debug)]
pub struct SeqCfg {
    pub qc: QCfg,
    pub max_senders: usize,
    pub max_recv: usize,
    pub max_streams: usize,
    pub depth: usize,
    pub orders: usize,
    /// include the blocking calls (recv / recv_view)
    pub blocking: bool,
    /// include the *FutUniReceiver::add_stream_with path
    pub uni_streams: bool,
    /// appended to the family label in signatures
    pub suffix: &'static str,
    /// retirements accumulated by add/drop churn before the history starts
    /// (0 = fresh queue): non-initial states of the reclamation manager
    pub pre: u8,
}

fn churn_suffix(pre: u8) -> &'static str {
    match pre {
        16 => "+after-churn16",
        17 => "+after-churn17",
        18 => "+after-churn18",
        19 => "+after-churn19",
        20 => "+after-churn20",
        24 => "+after-churn24",
        _ => "",
    }
}

fn churn_of_sig(sig: &str) -> u8 {
    for p in [16u8, 17, 18, 19, 20, 24] {
        if sig.contains(churn_suffix(p)) {
            return p;
        }
    }
    0
}

fn pre_ops(c: &SeqCfg) -> Vec<Op> {
    // `pre` = number of retirements the reclamation manager has accumulated
    // before the enumerated history starts (the threshold for a cycle is 20)
    let mut v = Vec::new();
    let n = c.pre as usize;
    let (cycles, singles) = if c.qc.fl == Flavour::B { (n / 4, n % 4) } else { (0, n) };
    for _ in 0..cycles {
        v.push(opd(AddStream, 1, 6));
        v.push(op(DropH, 6));
    }
    for _ in 0..singles {
        v.push(opd(CloneH, 1, 6));
        v.push(op(DropH, 6));
    }
    v
}

impl MState {
    fn new(n: usize) -> MState {
        let mut slots = [None; NSLOTS];
        slots[0] = Some((Kind::S, 0));
        slots[1] = Some((Kind::R, 0));
        let mut streams = BTreeMap::new();
        streams.insert(
            0,
            MStream {
                cursor: 0,
                handles: 1,
            },
        );
        MState {
            n,
            log: vec![],
            streams,
            senders: 1,
            no_receivers: false,
            slots,
            next_val: 1,
            next_sid: NSLOTS as u8,
            stream_wait: [false; NSLOTS],
            sink_wait: [false; NSLOTS],
            expect_notify: Vec::new(),
        }
    }

    fn key(&self) -> u64 {
        let mut h: u64 = 0xcbf29ce484222325;
        let mut mix = |x: u64| {
            h ^= x;
            h = h.wrapping_mul(0x100000001b3);
        };
        mix(self.log.len() as u64);
        mix(self.senders as u64);
        mix(self.no_receivers as u64);
        for (s, st) in &self.streams {
            mix(*s as u64 + 100);
            mix(st.cursor as u64);
            mix(st.handles as u64);
        }
        for (i, s) in self.slots.iter().enumerate() {
            if let Some((k, st)) = s {
                mix(i as u64 * 16 + *k as u64 * 4);
                mix(*st as u64);
            }
        }
        h
    }

    fn min_cursor(&self) -> usize {
        self.streams
            .values()
            .map(|s| s.cursor)
            .min()
            .unwrap_or(self.log.len())
    }

    fn free_slot(&self, set: &[u8], max: usize) -> Option<u8> {
        let live = set.iter().filter(|s| self.slots[**s as usize].is_some()).count();
        if live >= max {
            return None;
        }
        set.iter().copied().find(|s| self.slots[*s as usize].is_none())
    }

    fn remove_recv(&mut self, slot: u8) -> bool {
        let (_, sid) = self.slots[slot as usize].take().unwrap();
        let st = self.streams.get_mut(&sid).unwrap();
        st.handles -= 1;
        let last = st.handles == 0;
        if last {
            self.streams.remove(&sid);
            if self.streams.is_empty() {
                self.no_receivers = true;
            }
        }
        last
    }

    /// Model prediction(s) for one op (composite ops give several results).
    /// Model prediction(s) for one op, plus the bookkeeping of parked tasks.
    fn step(&mut self, o: &Op, fl: Flavour) -> Vec<Res> {
        self.expect_notify.clear();
        let res = self.step_inner(o, fl);
        match (o.k, res.last()) {
            (PollS, Some(Res::NotReady)) => self.stream_wait[o.h as usize] = true,
            (PollS, _) => self.stream_wait[o.h as usize] = false,
            (StartSend, Some(Res::NotReadyMsg(_))) => self.sink_wait[o.h as usize] = true,
            (StartSend, _) => self.sink_wait[o.h as usize] = false,
            (DropH, _) | (Unsub, _) | (IntoSingle, _) | (IntoMulti, _) | (Transform, _) => {
                self.stream_wait[o.h as usize] = false;
                self.sink_wait[o.h as usize] = false;
            }
            _ => {}
        }
        // whoever can make progress now must have been told by this operation
        for slot in 0..NSLOTS {
            if self.stream_wait[slot] {
                match self.slots[slot] {
                    Some((k, sid)) if k != Kind::S => {
                        let st = &self.streams[&sid];
                        if st.cursor < self.log.len() || self.senders == 0 {
                            self.stream_wait[slot] = false;
                            self.expect_notify.push(100 + slot);
                        }
                    }
                    _ => self.stream_wait[slot] = false,
                }
            }
            if self.sink_wait[slot] {
                match self.slots[slot] {
                    Some((Kind::S, _)) => {
                        if self.no_receivers || self.log.len() - self.min_cursor() < self.n {
                            self.sink_wait[slot] = false;
                            self.expect_notify.push(200 + slot);
                        }
                    }
                    _ => self.sink_wait[slot] = false,
                }
            }
        }
        res
    }

    fn step_inner(&mut self, o: &Op, fl: Flavour) -> Vec<Res> {
        let (kind, sid) = self.slots[o.h as usize].expect("model: op on dead slot");
        match o.k {
            TrySend | StartSend => {
                let v = o.val;
                let refused = |k: OpK, full: bool| -> Res {
                    match (k, full) {
                        (TrySend, true) => Res::Full(v),
                        (TrySend, false) => Res::Disc(v),
                        (_, true) => Res::NotReadyMsg(v),
                        (_, false) => Res::SinkErr(v),
                    }
                };
                if self.no_receivers {
                    return vec![refused(o.k, false)];
                }
                if self.log.len() - self.min_cursor() >= self.n {
                    return vec![refused(o.k, true)];
                }
                self.log.push(v);
                vec![if o.k == TrySend { Res::Ok } else { Res::Ready }]
            }
            PollComplete => vec![Res::Ready],
            TryRecv | Recv | TryRecvView | RecvView | PollS => {
                let st = self.streams.get_mut(&sid).unwrap();
                if st.cursor < self.log.len() {
                    let v = self.log[st.cursor];
                    st.cursor += 1;
                    vec![Res::Val(v)]
                } else if self.senders == 0 {
                    vec![Res::End]
                } else {
                    vec![match o.k {
                        TryRecv | TryRecvView => Res::Empty,
                        PollS => Res::NotReady,
                        _ => Res::Blocked,
                    }]
                }
            }
            TryIter | TryIterWith => {
                let st = self.streams.get_mut(&sid).unwrap();
                let mut out = Vec::new();
                while st.cursor < self.log.len() {
                    out.push(Res::Val(self.log[st.cursor]));
                    st.cursor += 1;
                }
                out.push(Res::End);
                out
            }
            CloneH => {
                self.slots[o.dst as usize] = Some((kind, sid));
                if kind == Kind::S {
                    self.senders += 1;
                } else {
                    self.streams.get_mut(&sid).unwrap().handles += 1;
                }
                vec![Res::Unit]
            }
            DropH => {
                if kind == Kind::S {
                    self.slots[o.h as usize] = None;
                    self.senders -= 1;
                } else {
                    self.remove_recv(o.h);
                }
                vec![Res::Unit]
            }
            Unsub => {
                if kind == Kind::S {
                    self.slots[o.h as usize] = None;
                    self.senders -= 1;
                    vec![Res::Unit]
                } else {
                    let last = self.remove_recv(o.h);
                    if kind == Kind::U && fl == Flavour::B && !self_is_fut(o) {
                        vec![Res::Unit]
                    } else {
                        vec![Res::Bool(last)]
                    }
                }
            }
            AddStream | AddStreamWith => {
                let cursor = self.streams[&sid].cursor;
                let nsid = self.next_sid;
                self.next_sid += 1;
                self.streams.insert(
                    nsid,
                    MStream {
                        cursor,
                        handles: 1,
                    },
                );
                self.slots[o.dst as usize] = Some((kind, nsid));
                vec![Res::Unit]
            }
            IntoSingle => {
                let single = self.streams[&sid].handles == 1;
                if single {
                    self.slots[o.h as usize] = Some((Kind::U, sid));
                }
                vec![Res::Converted(single)]
            }
            IntoMulti => {
                self.slots[o.h as usize] = Some((Kind::R, sid));
                vec![Res::Unit]
            }
            Transform => vec![Res::Unit],
            _ => panic!("model: unsupported op {:?}", o.k),
        }
    }
}

// BroadcastUniReceiver::unsubscribe returns (), every other receiver returns
// bool; the futures single receivers return bool as well. The op carries the
// distinction in `val` (1 = futures handle).
fn self_is_fut(o: &Op) -> bool {
    o.val == 1
}

fn enabled(ms: &MState, c: &SeqCfg) -> Vec<Op> {
    let mut v = Vec::new();
    let fut = c.qc.fut;
    let fl = c.qc.fl;
    for &s in &SENDER_SLOTS {
        if let Some((Kind::S, _)) = ms.slots[s as usize] {
            v.push(opv(TrySend, s, ms.next_val));
            if fut {
                v.push(opv(StartSend, s, ms.next_val));
            }
            if let Some(d) = ms.free_slot(&SENDER_SLOTS, c.max_senders) {
                v.push(opd(CloneH, s, d));
            }
            v.push(op(DropH, s));
        }
    }
    for &r in &RECV_SLOTS {
        match ms.slots[r as usize] {
            Some((Kind::R, _)) => {
                v.push(op(TryRecv, r));
                if c.blocking {
                    v.push(op(Recv, r));
                }
                if fut {
                    v.push(op(PollS, r));
                } else {
                    v.push(op(TryIter, r));
                }
                if let Some(d) = ms.free_slot(&RECV_SLOTS, c.max_recv) {
                    v.push(opd(CloneH, r, d));
                    if fl == Flavour::B && ms.streams.len() < c.max_streams {
                        v.push(opd(AddStream, r, d));
                    }
                }
                v.push(op(DropH, r));
                v.push(opv(Unsub, r, fut as u32));
                v.push(op(IntoSingle, r));
            }
            Some((Kind::U, _)) => {
                v.push(op(TryRecv, r));
                if !fut {
                    v.push(op(TryRecvView, r));
                    v.push(op(TryIterWith, r));
                    if c.blocking {
                        v.push(op(RecvView, r));
                    }
                } else {
                    v.push(op(PollS, r));
                    v.push(op(Transform, r));
                    if c.uni_streams {
                        if let Some(d) = ms.free_slot(&RECV_SLOTS, c.max_recv) {
                            if ms.streams.len() < c.max_streams {
                                v.push(opd(AddStreamWith, r, d));
                            }
                        }
                    }
                }
                if c.blocking {
                    v.push(op(Recv, r));
                }
                v.push(op(IntoMulti, r));
                v.push(op(DropH, r));
                v.push(opv(Unsub, r, fut as u32));
            }
            _ => {}
        }
    }
    v
}

#[derive(Default)]
pub struct SeqStats {
    pub histories: u64,
    pub calls: u64,
    pub states: BTreeSet<u64>,
    pub depth: usize,
    pub findings: BTreeMap<String, (&'static str, u64, String, String)>, // sig -> (prop, count, history, detail)
    pub capped: bool,
    pub configs: Vec<String>,
    pub sample: Vec<String>,
    pub errs: Vec<String>,
}

impl SeqStats {
    fn find(&mut self, prop: &'static str, sig: String, hist: &str, detail: String) {
        let e = self
            .findings
            .entry(sig)
            .or_insert((prop, 0, hist.to_string(), detail));
        e.1 += 1;
    }
}

pub fn ops_to_string(ops: &[Op]) -> String {
    ops.iter()
        .map(|o| format!("{:?}:{}:{}:{}", o.k, o.h, o.dst, o.val))
        .collect::<Vec<_>>()
        .join(";")
}

fn parse_opk(s: &str) -> OpK {
    for k in [
        TrySend, StartSend, PollComplete, CloneH, DropH, Unsub, TryRecv, Recv, TryRecvView,
        RecvView, PollS, AddStream, IntoSingle, IntoMulti, AddStreamWith, Transform, TryIter,
        TryIterWith,
    ] {
        if format!("{:?}", k) == s {
            return k;
        }
    }
    panic!("unknown op {}", s)
}

pub fn ops_from_string(s: &str) -> Vec<Op> {
    s.split(';')
        .filter(|x| !x.is_empty())
        .map(|x| {
            let p: Vec<&str> = x.split(':').collect();
            Op {
                k: parse_opk(p[0]),
                h: p[1].parse().unwrap(),
                dst: p[2].parse().unwrap(),
                val: p[3].parse().unwrap(),
            }
        })
        .collect()
}

fn res_class(r: &Res) -> String {
    match r {
        Res::Ok => "Ok".into(),
        Res::Full(_) => "Full".into(),
        Res::Disc(_) => "Disconnected".into(),
        Res::Val(_) => "Value".into(),
        Res::Empty => "Empty".into(),
        Res::End => "End".into(),
        Res::Bool(b) => format!("{}", b),
        Res::Unit => "()".into(),
        Res::NotReady => "NotReady".into(),
        Res::NotReadyMsg(_) => "NotReady(msg)".into(),
        Res::Ready => "Ready".into(),
        Res::SinkErr(_) => "Err".into(),
        Res::Converted(b) => format!("converted={}", b),
        Res::Blocked => "Blocked".into(),
        Res::Panic(m) => format!(
            "panic({})",
            m.split(" @ ").next().unwrap_or("").chars().take(50).collect::<String>()
        ),
    }
}

pub struct HistOut {
    /// the operations actually executed: the explicit ones plus the re-polls
    /// of parked tasks that were notified (what an executor would do)
    pub exec_ops: Vec<Op>,
    /// index into exec_ops of the last explicit operation
    pub last_explicit: usize,
    /// task notifications raised during each executed op (sequential task ids)
    pub notifies: Vec<Vec<usize>>,
    pub evs: Vec<Ev>,
    pub kinds: Vec<&'static str>,
    pub completed: bool,
}

/// Runs `ops` on a fresh real queue in sequential mode, then tears everything
/// down in the given order. Returns the events plus the end-of-life reports.
fn run_history(
    c: &SeqCfg,
    ops: &[Op],
    order: usize,
    st: &mut SeqStats,
    hist_s: &str,
    check_teardown: bool,
) -> HistOut {
    rt::exec_begin();
    ledger_reset(0);
    rt::set_seq_horizon(20_000);
    let live0 = valloc::live();
    let ctx = Ctx::new(c.qc);
    let _ = rt::seq_call(|| ctx.create());
    for o in pre_ops(c) {
        let _ = rt::seq_call(|| ctx.exec(MAIN, &o));
    }
    ctx.hist.lk().clear();
    let mut kinds = Vec::new();
    let mut completed = true;
    let mut notifies: Vec<Vec<usize>> = Vec::new();
    let mut exec_ops: Vec<Op> = Vec::new();
    let mut last_explicit = 0usize;
    // parked tasks: task id -> the call to repeat when the task is notified
    let mut waiting: Vec<(usize, Op)> = Vec::new();
    let _ = rt::take_seq_notifies();
    'outer: for o in ops {
        let mut queue: std::collections::VecDeque<Op> = std::collections::VecDeque::new();
        queue.push_back(*o);
        let mut first = true;
        let mut implicit = 0;
        while let Some(x) = queue.pop_front() {
            if first {
                last_explicit = exec_ops.len();
                first = false;
            }
            if ctx.slot_kind(x.h).is_none() {
                continue; // the parked handle is gone
            }
            kinds.push(ctx.slot_kind(x.h).unwrap_or("?"));
            // val==1 on Unsub only tells the model about the handle family
            let real = if x.k == Unsub { op(Unsub, x.h) } else { x };
            let r = rt::seq_call(|| ctx.exec(MAIN, &real));
            let notes = rt::take_seq_notifies();
            exec_ops.push(x);
            st.calls += 1;
            match r {
                Ok(true) => {}
                Ok(false) => {
                    notifies.push(notes);
                    completed = false;
                    break 'outer;
                }
                Err(None) => {
                    // the call would never return on one thread
                    let (end, stt) = rt::op_end();
                    ctx.hist.lk().push(Ev {
                        th: MAIN,
                        h: x.h,
                        stream: 0,
                        k: match x.k {
                            TryIter | TryIterWith => IterNext,
                            k => k,
                        },
                        val: x.val,
                        start: end,
                        end,
                        res: Res::Blocked,
                        st: stt,
                    });
                    notifies.push(notes);
                    completed = false;
                    break 'outer;
                }
                Err(Some(m)) => {
                    st.errs.push(format!("harness panic in history {}: {}", hist_s, m));
                    notifies.push(notes);
                    completed = false;
                    break 'outer;
                }
            }
            // bookkeeping of parked tasks from the real result
            let res = ctx.hist.lk().last().map(|e| e.res.clone());
            let (sid, kid) = (100 + x.h as usize, 200 + x.h as usize);
            match x.k {
                PollS => {
                    waiting.retain(|(i, _)| *i != sid);
                    if res == Some(Res::NotReady) {
                        waiting.push((sid, x));
                    }
                }
                StartSend => {
                    waiting.retain(|(i, _)| *i != kid);
                    if let Some(Res::NotReadyMsg(_)) = res {
                        waiting.push((kid, x));
                    }
                }
                DropH | Unsub | IntoSingle | IntoMulti | Transform => {
                    waiting.retain(|(i, _)| *i != sid && *i != kid);
                }
                _ => {}
            }
            // a notified parked task polls again, like under an executor
            for id in &notes {
                if let Some(pos) = waiting.iter().position(|(i, _)| i == id) {
                    let (_, w) = waiting.remove(pos);
                    if implicit < 12 {
                        implicit += 1;
                        queue.push_back(w);
                    }
                }
            }
            notifies.push(notes);
        }
    }
    let evs: Vec<Ev> = ctx.hist.lk().clone();
    // ------------------------------------------------------------ teardown
    let mut senders: Vec<u8> = Vec::new();
    let mut recvs: Vec<u8> = Vec::new();
    for i in 0..NSLOTS as u8 {
        if let Some(k) = ctx.slot_kind(i) {
            if k.contains("Sender") {
                senders.push(i);
            } else {
                recvs.push(i);
            }
        }
    }
    let seq: Vec<u8> = match order {
        0 => senders.iter().chain(recvs.iter()).copied().collect(),
        1 => recvs.iter().chain(senders.iter()).copied().collect(),
        2 => {
            let mut v: Vec<u8> = senders.iter().chain(recvs.iter()).copied().collect();
            v.sort();
            v
        }
        _ => {
            let mut v: Vec<u8> = senders.iter().chain(recvs.iter()).copied().collect();
            v.sort();
            v.reverse();
            v
        }
    };
    let mut td_ok = true;
    for s in seq {
        match rt::seq_call(|| ctx.exec(MAIN, &op(DropH, s))) {
            Ok(true) => {}
            _ => {
                td_ok = false;
                break;
            }
        }
    }
    let _ = rt::seq_call(|| tracked(|| drop(ctx)));
    let led = ledger_report();
    let live1 = valloc::live();
    let mem = rt::exec_end();
    let fl = format!(
        "{}{}{}",
        if c.qc.fl == Flavour::B { "bcast" } else { "mpmc" },
        if c.qc.fut { "-fut" } else { "" },
        c.suffix
    );
    for m in &mem.faults {
        let sig = match m {
            MemFault::UseAfterFree { kind } => format!("C16|use-after-free|{}|{}", kind, fl),
            MemFault::DoubleFree => format!("C16|double-free|{}", fl),
            MemFault::UnknownFree => format!("C16|free-of-unknown-block|{}", fl),
        };
        st.find("C16", sig.clone(), hist_s, format!("{:?} (teardown order {})", m, order));
        // undefined behaviour in a single-threaded history: whatever the calls
        // return cannot be relied on, so the sequential-behaviour properties
        // are violated as well (the quarantine only hides the consequences)
        let via = sig.replacen("C16|", "", 1);
        st.find(
            "C09",
            format!("C09|memory-fault-in-sequential-history|{}", via),
            hist_s,
            format!("{:?} (teardown order {})", m, order),
        );
        if c.qc.fut {
            st.find(
                "C15",
                format!("C15|memory-fault-in-sequential-history|{}", via),
                hist_s,
                format!("{:?} (teardown order {})", m, order),
            );
        }
    }
    for p in &led.faults {
        let (prop, sig): (&'static str, String) = match p {
            PFault::Corrupt { at } => ("C04", format!("C04|corrupt-value|at={}|{}", at, fl)),
            PFault::DeadAccess { at } => ("C04", format!("C04|dead-value|at={}|{}", at, fl)),
            PFault::ChangedDuring { at } => ("C04", format!("C04|value-replaced-during|at={}|{}", at, fl)),
            PFault::DroppedWhileBorrowed => ("C04", format!("C04|dropped-while-borrowed|{}", fl)),
            PFault::DoubleDrop => ("C05", format!("C05|double-drop|{}", fl)),
        };
        st.find(prop, sig, hist_s, format!("{:?} (teardown order {})", p, order));
    }
    if check_teardown && completed && td_ok {
        if !led.never_dropped.is_empty() {
            st.find(
                "C05",
                format!("C05|never-dropped|{}", fl),
                hist_s,
                format!(
                    "{} instance(s) never dropped, teardown order {}: {:?}",
                    led.never_dropped.len(),
                    order,
                    &led.never_dropped[..led.never_dropped.len().min(4)]
                ),
            );
        }
        if mem.crate_live_blocks > 0 || live1.1 - live0.1 != 0 {
            st.find(
                "C17",
                format!("C17|memory-live-after-last-handle-dropped|{}", fl),
                hist_s,
                format!(
                    "crate blocks live {} ({} bytes); allocator delta {} bytes / {} blocks; teardown order {}",
                    mem.crate_live_blocks,
                    mem.crate_live_bytes,
                    live1.0 - live0.0,
                    live1.1 - live0.1,
                    order
                ),
            );
        }
    }
    HistOut {
        exec_ops,
        last_explicit,
        notifies,
        evs,
        kinds,
        completed: completed && td_ok,
    }
}

struct Dfs<'a> {
    c: SeqCfg,
    st: &'a mut SeqStats,
    deadline: Instant,
    shard: (usize, usize),
    frontier_depth: usize,
    frontier_idx: usize,
    fl: String,
}

impl<'a> Dfs<'a> {
    /// Judge the node `ops` (its last op against the model), then extend.
    fn node(&mut self, ops: &mut Vec<Op>) {
        let depth = ops.len();
        if depth == self.frontier_depth {
            let mine = self.frontier_idx % self.shard.1 == self.shard.0;
            self.frontier_idx += 1;
            if !mine {
                return;
            }
        }
        let accounted = depth >= self.frontier_depth || self.shard.0 == 0;
        let mut go_on = true;
        let mut ms = MState::new(self.c.qc.n() as usize);
        if depth > 0 {
            let hs = ops_to_string(ops);
            for order in 0..self.c.orders {
                let mut tmp = SeqStats::default();
                let out = run_history(&self.c, ops, order, &mut tmp, &hs, true);
                if accounted {
                    self.st.histories += 1;
                    self.st.calls += tmp.calls;
                    for (sig, (p, n, h, d)) in tmp.findings {
                        let e = self.st.findings.entry(sig).or_insert((p, 0, h, d));
                        e.1 += n;
                    }
                    self.st.errs.extend(tmp.errs);
                }
                if order == 0 {
                    // the model follows the executed sequence (explicit operations
                    // and the re-polls of notified tasks)
                    let mut preds: Vec<Res> = Vec::new();
                    let mut expect: Vec<Vec<usize>> = Vec::new();
                    for x in &out.exec_ops {
                        if ms.slots[x.h as usize].is_none() {
                            break;
                        }
                        preds.extend(ms.step(x, self.c.qc.fl));
                        expect.push(ms.expect_notify.clone());
                    }
                    go_on = self.compare(ops, &out, &preds, &hs, accounted, &expect);
                    if let Ok(pfx) = std::env::var("MQV_TRACE_NODE") {
                        if hs.starts_with(&pfx) {
                            eprintln!(
                                "NODE {} [{}] accounted={} go_on={} evs={:?} preds={:?}",
                                hs,
                                self.fl,
                                accounted,
                                go_on,
                                out.evs.iter().map(|e| e.res.clone()).collect::<Vec<_>>(),
                                preds
                            );
                        }
                    }
                }
            }
            ms.next_val = 1 + ops.iter().filter(|o| matches!(o.k, TrySend | StartSend)).count() as u32;
            if accounted {
                self.st.states.insert(ms.key());
                self.st.depth = self.st.depth.max(depth);
            }
        }
        if !go_on || depth >= self.c.depth {
            return;
        }
        if Instant::now() > self.deadline {
            self.st.capped = true;
            return;
        }
        for a in enabled(&ms, &self.c) {
            ops.push(a);
            self.node(ops);
            ops.pop();
        }
    }

    /// Compare the real events with the model's predictions. Only the events
    /// of the last op can be new. Returns false when the subtree must be cut.
    fn compare(
        &mut self,
        ops: &[Op],
        out: &HistOut,
        preds: &[Res],
        hs: &str,
        accounted: bool,
        expect_notify: &[Vec<usize>],
    ) -> bool {
        let real: Vec<&Ev> = out
            .evs
            .iter()
            .filter(|e| !(e.k == DropH && false))
            .collect();
        // events of teardown are not in evs (cloned before teardown)
        let last = ops.last().unwrap();
        let kind = out.kinds.last().copied().unwrap_or("?");
        let fl = self.fl.clone();
        let mut ok = true;
        if real.len() != preds.len() {
            // fewer events: a call blocked or panicked (recorded as its own event)
        }
        for (i, p) in preds.iter().enumerate() {
            let r = real.get(i).map(|e| e.res.clone());
            let same = match (&r, p) {
                (Some(a), b) => a == b,
                (None, _) => false,
            };
            if same {
                continue;
            }
            ok = false;
            if i + 3 < preds.len() && real.len() > i + 3 {
                // a mismatch earlier in the history was reported at its own node
                break;
            }
            if !accounted {
                break;
            }
            let got = r.as_ref().map(res_class).unwrap_or("nothing".into());
            let exp = res_class(p);
            let futk = kind.contains("Fut");
            let detail = format!(
                "history [{}]: op {:?} on {} (slot {}): model {:?}, implementation {:?}",
                hs, last.k, kind, last.h, p, r
            );
            if let Some(Res::Panic(_)) = &r {
                self.st.find(
                    if futk { "C15" } else { "C09" },
                    format!("{}|panic|op={:?}|handle={}|{}", if futk { "C15" } else { "C09" }, last.k, kind, got),
                    hs,
                    detail.clone(),
                );
                if futk {
                    self.st.find(
                        "C09",
                        format!("C09|panic|op={:?}|handle={}|{}", last.k, kind, got),
                        hs,
                        detail.clone(),
                    );
                }
                break;
            }
            self.st.find(
                "C09",
                format!(
                    "C09|model-mismatch|op={:?}|handle={}|expected={}|got={}{}",
                    last.k, kind, exp, got, self.c.suffix
                ),
                hs,
                detail.clone(),
            );
            if matches!(p, Res::Disc(_) | Res::SinkErr(_)) {
                self.st.find(
                    "C13",
                    format!("C13|send-after-last-receiver-dropped|returned={}|op={:?}|{}", got, last.k, fl),
                    hs,
                    detail.clone(),
                );
            }
            if futk {
                self.st.find(
                    "C15",
                    format!("C15|model-mismatch|op={:?}|handle={}|expected={}|got={}", last.k, kind, exp, got),
                    hs,
                    detail.clone(),
                );
            }
            break;
        }
        // parked tasks that can make progress after an op must have been notified by it
        if accounted && ok && out.completed {
            for i in out.last_explicit..out.exec_ops.len() {
                let (Some(got), Some(want)) = (out.notifies.get(i), expect_notify.get(i)) else {
                    continue;
                };
                let by = out.exec_ops[i];
                for w in want {
                    if !got.contains(w) {
                        let who = if *w >= 200 { "sink-task" } else { "stream-task" };
                        self.st.find(
                            "C14",
                            format!(
                                "C14|parked-{}-not-notified|by={:?}|on={}|{}",
                                who,
                                by.k,
                                out.kinds.get(i).copied().unwrap_or("?"),
                                fl
                            ),
                            hs,
                            format!(
                                "history [{}] (executed with re-polls: {}): after {:?} on slot {} the parked {} (task id {}) can make progress, but that operation notified only {:?}",
                                hs,
                                ops_to_string(&out.exec_ops),
                                by.k,
                                by.h,
                                who,
                                w,
                                got
                            ),
                        );
                    }
                }
            }
        }
        // contract checks on the last op's events (C15)
        if accounted {
            for e in real.iter().rev().take(1) {
                if matches!(e.k, PollS | StartSend | PollComplete)
                    && (e.st.sleeps > 0 || e.st.cond_waits > 0 || e.st.spin_blocks > 0)
                {
                    let what = if e.st.sleeps > 0 {
                        "sleeps"
                    } else if e.st.cond_waits > 0 {
                        "blocks-on-condvar"
                    } else {
                        "spins-on-unchanged-memory"
                    };
                    self.st.find(
                        "C15",
                        format!(
                            "C15|waits-inside-call|op={:?}|{}|res={}|{}",
                            e.k,
                            what,
                            match e.res {
                                Res::NotReady => "NotReady",
                                Res::Blocked => "Blocked",
                                Res::Val(_) => "Value",
                                _ => "other",
                            },
                            fl
                        ),
                        hs,
                        format!("history [{}]: {:?} -> {:?} stats {:?}", hs, e.k, e.res, e.st),
                    );
                }
            }
            if self.st.sample.len() < 2 && ops.len() >= 3 {
                self.st.sample.push(format!(
                    "{} => {:?}",
                    hs,
                    real.iter().map(|e| res_class(&e.res)).collect::<Vec<_>>()
                ));
            }
        }
        ok && out.completed
    }
}

fn configs(prop: &str, tier: Tier) -> Vec<SeqCfg> {
    let thorough = tier == Tier::Thorough;
    let mut v = Vec::new();
    let caps: &[u64] = if thorough { &[0, 1, 2, 3, 4] } else { &[1, 2] };
    let fams: Vec<(Flavour, bool)> = match prop {
        "C15" | "C14" => vec![(Flavour::B, true), (Flavour::M, true)],
        _ => vec![
            (Flavour::B, false),
            (Flavour::M, false),
            (Flavour::B, true),
            (Flavour::M, true),
        ],
    };
    for (fl, fut) in fams {
        for &cap in caps {
            let qc = if fut {
                crate::catalog::qf(fl, cap, (0, 0))
            } else {
                crate::catalog::q(fl, cap, WaitK::Busy)
            };
            let depth = match (prop, thorough) {
                ("C09", false) | ("C15", false) => 5,
                (_, false) => 5,
                (_, true) => 6,
            };
            v.push(SeqCfg {
                qc,
                max_senders: 2,
                max_recv: if thorough { 3 } else { 2 },
                max_streams: 2,
                depth,
                orders: match prop {
                    "C05" | "C17" => {
                        if thorough {
                            4
                        } else {
                            2
                        }
                    }
                    _ => 1,
                },
                blocking: matches!(prop, "C09" | "C15"),
                uni_streams: prop == "C05" && fl == Flavour::B,
                suffix: "",
                pre: 0,
            });
            if matches!(prop, "C09" | "C15") && thorough && cap == 1 {
                // one level deeper over the quick tier's handle limits (depth 7
                // over the thorough limits does not finish in half an hour)
                let mut c7 = *v.last().unwrap();
                c7.depth = 7;
                c7.max_recv = 2;
                c7.suffix = "+depth7";
                v.push(c7);
            }
            if matches!(prop, "C09" | "C13" | "C15") && cap == 1 {
                // non-initial states of the reclamation manager: a cycle pending
                // (24 retirements), and every count just below the threshold, so
                // that the enumerated operations themselves cross it
                let mut base = *v.last().unwrap();
                if base.depth == 7 {
                    base.depth = 6;
                    base.max_recv = 3;
                    base.suffix = "";
                }
                let mut c3 = base;
                c3.pre = 24;
                c3.depth -= 1;
                c3.suffix = churn_suffix(24);
                v.push(c3);
                for pre in 16..=20u8 {
                    let mut c4 = base;
                    c4.pre = pre;
                    c4.depth = if thorough { 4 } else { 3 };
                    c4.suffix = churn_suffix(pre);
                    v.push(c4);
                }
            }
            if prop == "C05" && fl == Flavour::M && fut && cap <= 2 {
                // a second stream on a move-out queue (MPMCFutUniReceiver::add_stream_with)
                let mut c2 = *v.last().unwrap();
                c2.uni_streams = true;
                c2.suffix = "+second-stream-via-add_stream_with";
                v.push(c2);
            }
        }
    }
    v
}

/// Tier C: deterministic pump (fill to Full, drain to Empty) over requested
/// capacities 0..9 with every placement of one structural operation.
fn pump(st: &mut SeqStats, fl: Flavour, fut: bool, cap: u64, label: &str) {
    let qc = if fut {
        crate::catalog::qf(fl, cap, (0, 0))
    } else {
        crate::catalog::q(fl, cap, WaitK::Busy)
    };
    let n = qc.n() as usize;
    let c = SeqCfg {
        qc,
        max_senders: 2,
        max_recv: 2,
        max_streams: 2,
        depth: 0,
        orders: 1,
        blocking: false,
        uni_streams: false,
        suffix: "",
        pre: 0,
    };
    // base pump: 3 rounds of (N+1 sends, N+1 receives)
    let mut base: Vec<Op> = Vec::new();
    let mut val = 1;
    for _ in 0..3 {
        for _ in 0..=n {
            base.push(opv(TrySend, 0, val));
            val += 1;
        }
        for _ in 0..=n {
            base.push(op(TryRecv, 1));
        }
    }
    // deviations: at every position insert one structural op (or none)
    let mut variants: Vec<Vec<Op>> = vec![base.clone()];
    for pos in 0..=base.len() {
        for dev in 0..5 {
            let mut v = base.clone();
            let ins: Vec<Op> = match dev {
                // a second sender appears, sends one value itself and leaves (the
                // first sender falls back to the single-writer path afterwards)
                4 => vec![opd(CloneH, 0, 2), opv(TrySend, 2, 900 + pos as u32), op(DropH, 2)],
                0 => vec![opd(CloneH, 0, 2), op(DropH, 2)],
                1 => vec![opd(CloneH, 1, 4), op(DropH, 4)],
                2 => {
                    if fl == Flavour::B {
                        vec![opd(AddStream, 1, 4), opv(Unsub, 4, fut as u32)]
                    } else {
                        continue;
                    }
                }
                _ => vec![op(IntoSingle, 1), op(IntoMulti, 1)],
            };
            for (k, o) in ins.into_iter().enumerate() {
                v.insert(pos + k, o);
            }
            variants.push(v);
        }
    }
    for ops in variants {
        let hs = ops_to_string(&ops);
        let mut ms = MState::new(n);
        let mut preds = Vec::new();
        for o in &ops {
            preds.extend(ms.step(o, fl));
        }
        let out = run_history(&c, &ops, 0, st, &hs, true);
        st.histories += 1;
        st.states.insert(ms.key() ^ (cap as u64) << 40);
        st.depth = st.depth.max(ops.len());
        let real: Vec<Res> = out.evs.iter().map(|e| e.res.clone()).collect();
        if real != preds {
            let i = real
                .iter()
                .zip(preds.iter())
                .position(|(a, b)| a != b)
                .unwrap_or(real.len().min(preds.len()));
            let opi = &ops[i.min(ops.len() - 1)];
            st.find(
                "C09",
                format!(
                    "C09|model-mismatch|pump|op={:?}|expected={}|got={}|{}",
                    opi.k,
                    preds.get(i).map(res_class).unwrap_or("nothing".into()),
                    real.get(i).map(res_class).unwrap_or("nothing".into()),
                    label
                ),
                &hs,
                format!("requested capacity {} (N={}): event {} differs", cap, n, i),
            );
            if matches!(opi.k, TrySend | StartSend) {
                st.find(
                    "C03",
                    format!(
                        "C03|capacity-differs-from-model|expected={}|got={}|{}",
                        preds.get(i).map(res_class).unwrap_or("nothing".into()),
                        real.get(i).map(res_class).unwrap_or("nothing".into()),
                        label
                    ),
                    &hs,
                    format!("requested capacity {} (N={}): event {} differs", cap, n, i),
                );
            }
        }
    }
}

/// C17: churn histories: memory held by the queue must not grow with the
/// number of add/remove cycles while a fixed set of handles keeps operating.
fn churn(st: &mut SeqStats, fl: Flavour, fut: bool, cycles: usize, early_drop: bool, kind: usize, burst: usize, primed: bool) {
    let qc = if fut {
        crate::catalog::qf(fl, 2, (0, 0))
    } else {
        crate::catalog::q(fl, 2, WaitK::Busy)
    };
    let label = format!(
        "{}{}{}{}|cycle={}|early-drop={}",
        if fl == Flavour::B { "bcast" } else { "mpmc" },
        if fut { "-fut" } else { "" },
        if burst > 1 { "|bursts" } else { "" },
        if primed { "|cycle-in-flight-at-start" } else { "" },
        [
            "clone-recv",
            "add-stream",
            "clone-sender",
            "single-multi",
            "clone-sender-after-receivers-left",
            "add-stream-from-a-handle-that-does-nothing-else",
            "clone-recv-from-a-handle-that-does-nothing-else",
            "clone-sender-from-a-handle-that-does-nothing-else",
        ][kind],
        early_drop
    );
    if (kind == 1 || kind == 5) && fl == Flavour::M {
        return;
    }
    rt::exec_begin();
    ledger_reset(0);
    rt::set_seq_horizon(50_000);
    let ctx = Ctx::new(qc);
    let _ = rt::seq_call(|| ctx.create());
    // a call that panics or never returns ends the churn (reported below); an
    // operation on a handle that such a call consumed is never attempted
    let broken: std::cell::RefCell<Option<String>> = std::cell::RefCell::new(None);
    let run = |o: Op| {
        if broken.borrow().is_some() {
            return;
        }
        if !ctx.slot_live(o.h) {
            *broken.borrow_mut() = Some(format!("handle {} is gone before {:?}", o.h, o.k));
            return;
        }
        match rt::seq_call(|| ctx.exec(MAIN, &o)) {
            Ok(true) => {}
            Ok(false) => *broken.borrow_mut() = Some(format!("{:?} on handle {} panicked: {:?}", o.k, o.h, ctx.hist.lk().last().map(|e| e.res.clone()))),
            Err(None) => *broken.borrow_mut() = Some(format!("{:?} on handle {} never returns on one thread", o.k, o.h)),
            Err(Some(m)) => *broken.borrow_mut() = Some(format!("{:?} on handle {}: {}", o.k, o.h, m)),
        }
    };
    if early_drop {
        // a non-last handle of the stream is dropped early
        run(opd(CloneH, 1, 5));
        run(op(DropH, 5));
    }
    // kinds 5..7: the cycles are performed by a handle of its own that is never
    // used for anything else (a prototype kept for subscribing / cloning), the
    // fixed handles send and receive as usual
    if kind == 5 || kind == 6 {
        run(opd(CloneH, 1, 6));
    }
    if kind == 7 {
        run(opd(CloneH, 0, 3));
    }
    if primed {
        // 24 retirements without any fixed handle operating in between: a
        // reclamation cycle is in flight (and unacknowledged) when the churn
        // - or, for kind 4, the departure of the last stream - begins
        for _ in 0..(if fl == Flavour::B { 6 } else { 24 }) {
            if fl == Flavour::B {
                run(opd(AddStream, 1, 4));
            } else {
                run(opd(CloneH, 1, 4));
            }
            run(op(DropH, 4));
        }
    }
    if kind == 4 {
        // only senders stay alive and keep operating
        run(op(DropH, 1));
    }
    let mut plateau: Vec<(usize, isize, usize)> = Vec::new();
    let marks = [cycles / 4, cycles / 2, (3 * cycles) / 4, cycles];
    let mut val = 1;
    let mut reported = false;
    for i in 1..=cycles {
        match kind {
            0 => {
                run(opd(CloneH, 1, 4));
                run(op(DropH, 4));
            }
            1 => {
                run(opd(AddStream, 1, 4));
                run(op(DropH, 4));
            }
            2 | 4 => {
                run(opd(CloneH, 0, 2));
                run(op(DropH, 2));
            }
            5 => {
                run(opd(AddStream, 6, 4));
                run(op(DropH, 4));
            }
            6 => {
                run(opd(CloneH, 6, 4));
                run(op(DropH, 4));
            }
            7 => {
                run(opd(CloneH, 3, 2));
                run(op(DropH, 2));
            }
            _ => {
                run(op(IntoSingle, 1));
                run(op(IntoMulti, 1));
            }
        }
        // the fixed handles keep operating (after every cycle, or after a burst
        // of cycles during which they were idle)
        if i % burst == 0 {
            run(opv(TrySend, 0, val));
            let sent = ctx.hist.lk().last().map(|e| e.res.clone());
            let want_send = if kind == 4 { Res::Disc(val) } else { Res::Ok };
            let mut bad: Option<String> = None;
            if sent.as_ref() != Some(&want_send) {
                bad = Some(format!("try_send gave {:?}, the model says {:?}", sent, want_send));
            }
            if kind != 4 {
                run(op(TryRecv, 1));
                let got = ctx.hist.lk().last().map(|e| e.res.clone());
                if bad.is_none() && got != Some(Res::Val(val)) {
                    bad = Some(format!("try_recv gave {:?}, the model says Val({})", got, val));
                }
            }
            val += 1;
            if let Some(b) = bad {
                if !reported {
                    reported = true;
                    for prop in ["C09", "C12"] {
                        st.find(
                            prop,
                            format!("{}|churn-result-differs-from-model|{}", prop, label),
                            &format!("churn kind={} cycles={} early_drop={} burst={}", kind, cycles, early_drop, burst),
                            format!("after {} cycles: {}", i, b),
                        );
                    }
                }
            }
        }
        ctx.hist.lk().clear();
        if let Some(b) = broken.borrow().clone() {
            for prop in ["C09", "C12"] {
                st.find(
                    prop,
                    format!("{}|churn-call-fails|{}", prop, label),
                    &format!("churn kind={} cycles={} early_drop={} burst={}", kind, cycles, early_drop, burst),
                    format!("in cycle {}: {}", i, b),
                );
            }
            break;
        }
        if std::env::var("MQV_DEBUG").is_ok() && i % 10 == 0 {
            let (blocks, bytes) = rt::crate_live();
            eprintln!("{} cycle {} live_bytes {} crate_blocks {} crate_bytes {}", label, i, valloc::live().0, blocks, bytes);
        }
        if marks.contains(&i) {
            let (blocks, bytes) = rt::crate_live();
            plateau.push((i, valloc::live().0, bytes + blocks * 0));
        }
    }
    st.histories += 1;
    st.calls += (cycles * 4) as u64;
    st.depth = st.depth.max(cycles * 4);
    st.states.insert(cycles as u64 * 131 + burst as u64 * 1009 + kind as u64 * 7 + early_drop as u64 + primed as u64 * 77777 + if fut { 1000 } else { 0 } + if fl == Flavour::B { 50000 } else { 0 });
    // growth between the half-way mark and the end (after warm-up)
    if plateau.len() < 4 {
        // the churn was cut short (reported above)
        let _ = rt::seq_call(|| {
            for i in 0..NSLOTS as u8 {
                if ctx.slot_live(i) {
                    ctx.exec(MAIN, &op(DropH, i));
                }
            }
        });
        let _ = rt::seq_call(|| tracked(|| drop(ctx)));
        let _ = rt::exec_end();
        return;
    }
    let a = plateau[1];
    let b = plateau[3];
    let per_cycle = (b.1 - a.1) as f64 / (b.0 - a.0) as f64;
    if b.1 > a.1 + 4096 && per_cycle > 8.0 {
        st.find(
            "C17",
            format!("C17|memory-grows-with-churn|{}", label),
            &format!("churn kind={} cycles={} early_drop={}", kind, cycles, early_drop),
            format!(
                "live bytes attributed to the queue at cycles {:?}: {:?} (+{:.1} bytes/cycle)",
                plateau.iter().map(|p| p.0).collect::<Vec<_>>(),
                plateau.iter().map(|p| p.1).collect::<Vec<_>>(),
                per_cycle
            ),
        );
    }
    let _ = rt::seq_call(|| {
        for i in 0..NSLOTS as u8 {
            if ctx.slot_live(i) {
                ctx.exec(MAIN, &op(DropH, i));
            }
        }
    });
    let _ = rt::seq_call(|| tracked(|| drop(ctx)));
    let mem = rt::exec_end();
    for m in &mem.faults {
        st.find(
            "C16",
            format!("C16|{:?}|churn|{}", m, label),
            "churn",
            format!("{:?}", m),
        );
    }
}

/// Population sweep of the futures wake-up lists: K = 1..=12 tasks parked at the
/// same time (the implementation switches code paths on the number of parked
/// tasks), then the one operation that lets all of them make progress. Every
/// parked task must have been notified when that operation returns, and its
/// next poll must give what the model says.
fn crowd(st: &mut SeqStats, fl: Flavour, mode: usize, k: usize) {
    let modes = [
        "streams-parked-then-send",
        "shared-stream-tasks-parked-then-last-sender-dropped",
        "streams-parked-then-last-sender-dropped",
        "sinks-parked-then-receive",
        "sinks-parked-then-last-receiver-dropped",
        "sinks-parked-then-poll",
        "sinks-parked-then-lagging-stream-unsubscribed",
        "sinks-parked-then-lagging-stream-dropped",
        "stream-task-parked-then-many-polls-of-another-task-then-send",
        "sink-task-parked-then-many-refused-sends-of-another-task-then-receive",
        "sinks-parked-then-last-receiver-unsubscribed",
        "sinks-parked-then-last-receiver-dropped-inside-the-task-of-the-first-sink",
    ];
    if fl == Flavour::M && matches!(mode, 0 | 2 | 6 | 7 | 8) {
        return; // one stream only
    }
    let qc = crate::catalog::qf(fl, 1, (0, 0));
    let label = format!(
        "{}-fut|{}|{}",
        if fl == Flavour::B { "bcast" } else { "mpmc" },
        modes[mode],
        if mode == 8 || mode == 9 {
            if k * 4 >= 32 { "32-or-more-repeats" } else { "fewer-than-32-repeats" }
        } else if k + (mode < 3) as usize > 8 {
            "more-than-8-parked"
        } else {
            "up-to-8-parked"
        }
    );
    let hist_s = format!("crowd mode={} k={}", modes[mode], k);
    rt::exec_begin();
    ledger_reset(0);
    rt::set_seq_horizon(50_000);
    let ctx = Ctx::new(qc);
    let _ = rt::seq_call(|| ctx.create());
    let mut calls = 0u64;
    let mut run = |o: Op| -> Option<Res> {
        calls += 1;
        if !ctx.slot_live(o.h) {
            // an earlier call that panicked consumed the handle
            return Some(Res::Panic(format!("handle {} is gone", o.h)));
        }
        match rt::seq_call(|| ctx.exec(MAIN, &o)) {
            Ok(true) => ctx.hist.lk().last().map(|e| e.res.clone()),
            _ => Some(Res::Blocked),
        }
    };
    let mut problems: Vec<(&'static str, String)> = Vec::new();
    let _ = rt::take_seq_notifies();
    let extra: Vec<u8> = (2..2 + k as u8).collect();
    match mode {
        0 | 1 | 2 => {
            // k extra stream tasks (+ the original receiver) park on an empty queue
            for &h in &extra {
                if mode == 1 {
                    run(opd(CloneH, 1, h));
                } else {
                    run(opd(AddStream, 1, h));
                }
            }
            let mut parked: Vec<u8> = vec![1];
            parked.extend(&extra);
            for &h in &parked {
                let r = run(op(PollS, h));
                if r != Some(Res::NotReady) {
                    problems.push(("C15", format!("poll of an empty queue gave {:?}", r)));
                }
            }
            let _ = rt::take_seq_notifies();
            let ev = if mode == 0 { opv(TrySend, 0, 7) } else { op(DropH, 0) };
            let r = run(ev);
            if mode == 0 && r != Some(Res::Ok) {
                problems.push(("C15", format!("try_send into an empty queue gave {:?}", r)));
            }
            let notes = rt::take_seq_notifies();
            let missing: Vec<u8> = parked.iter().copied().filter(|h| !notes.contains(&(100 + *h as usize))).collect();
            if !missing.is_empty() {
                let d = format!(
                    "{} stream tasks parked; after {:?} the tasks of handles {:?} were not notified (notified: {:?})",
                    parked.len(), ev.k, missing, notes
                );
                problems.push(("C14", d.clone()));
                if mode != 0 {
                    problems.push(("C07", d));
                }
            }
            // what each task sees when it polls again
            let mut got_val = 0;
            for &h in &parked {
                let r = run(op(PollS, h));
                let ok = match (mode, &r) {
                    (0, Some(Res::Val(7))) => {
                        got_val += 1;
                        true
                    }
                    (1, Some(Res::End)) | (2, Some(Res::End)) => true,
                    _ => false,
                };
                if !ok && mode != 0 {
                    problems.push(("C07", format!("after the last sender left, poll of handle {} gave {:?}", h, r)));
                }
                if !ok && mode == 0 {
                    problems.push(("C15", format!("after one send, poll of stream handle {} gave {:?}", h, r)));
                }
            }
            let _ = got_val;
        }
        6 | 7 => {
            // two streams; the side stream lags and holds the only slot; k sink
            // tasks are refused; then the lagging stream goes away
            run(opd(AddStream, 1, 14));
            for &h in &extra {
                run(opd(CloneH, 0, h));
            }
            let r = run(opv(TrySend, 0, 7));
            if r != Some(Res::Ok) {
                problems.push(("C15", format!("first try_send gave {:?}", r)));
            }
            let r = run(op(TryRecv, 1));
            if r != Some(Res::Val(7)) {
                problems.push(("C15", format!("try_recv gave {:?}", r)));
            }
            for (i, &h) in extra.iter().enumerate() {
                let r = run(opv(StartSend, h, 20 + i as u32));
                if r != Some(Res::NotReadyMsg(20 + i as u32)) {
                    problems.push(("C15", format!("start_send on a queue held full by a lagging stream gave {:?}", r)));
                }
            }
            let _ = rt::take_seq_notifies();
            let ev = if mode == 6 { op(Unsub, 14) } else { op(DropH, 14) };
            run(ev);
            let notes = rt::take_seq_notifies();
            let missing: Vec<u8> = extra.iter().copied().filter(|h| !notes.contains(&(200 + *h as usize))).collect();
            if !missing.is_empty() {
                let d = format!(
                    "{} sink tasks parked behind a lagging stream; after {:?} of that stream the tasks of handles {:?} were not notified (notified: {:?})",
                    extra.len(), ev.k, missing, notes
                );
                problems.push(("C14", d.clone()));
                problems.push(("C11", d));
            }
            for (i, &h) in extra.iter().enumerate() {
                let v = 20 + i as u32;
                let r = run(opv(StartSend, h, v));
                let ok = (i == 0 && r == Some(Res::Ready)) || (i > 0 && r == Some(Res::NotReadyMsg(v)));
                if !ok {
                    problems.push(("C11", format!("retry of start_send #{} after the lagging stream left gave {:?}", i, r)));
                }
            }
        }
        8 => {
            // one stream task parked; another stream's task polls 4k times in
            // vain (each poll registers it again); then one send
            run(opd(AddStream, 1, 2));
            let r = run(op(PollS, 1));
            if r != Some(Res::NotReady) {
                problems.push(("C15", format!("poll of an empty queue gave {:?}", r)));
            }
            for _ in 0..4 * k {
                let r = run(op(PollS, 2));
                if r != Some(Res::NotReady) {
                    problems.push(("C15", format!("poll of an empty queue gave {:?}", r)));
                }
            }
            let _ = rt::take_seq_notifies();
            run(opv(TrySend, 0, 7));
            let notes = rt::take_seq_notifies();
            let missing: Vec<u8> = [1u8, 2].iter().copied().filter(|h| !notes.contains(&(100 + *h as usize))).collect();
            if !missing.is_empty() {
                problems.push(("C14", format!(
                    "a stream task parked, then {} fruitless polls by another task; after the send the tasks of handles {:?} were not notified (notified: {:?})",
                    4 * k, missing, notes
                )));
            }
            for h in [1u8, 2] {
                let r = run(op(PollS, h));
                if r != Some(Res::Val(7)) {
                    problems.push(("C15", format!("poll after the send gave {:?}", r)));
                }
            }
        }
        9 => {
            // one sink task parked; another is refused 4k times; then a receive
            run(opd(CloneH, 0, 2));
            run(opd(CloneH, 0, 3));
            run(opv(TrySend, 0, 7));
            let r = run(opv(StartSend, 2, 20));
            if r != Some(Res::NotReadyMsg(20)) {
                problems.push(("C15", format!("start_send on a full queue gave {:?}", r)));
            }
            for _ in 0..4 * k {
                let r = run(opv(StartSend, 3, 21));
                if r != Some(Res::NotReadyMsg(21)) {
                    problems.push(("C15", format!("start_send on a full queue gave {:?}", r)));
                }
            }
            let _ = rt::take_seq_notifies();
            run(op(TryRecv, 1));
            let notes = rt::take_seq_notifies();
            let missing: Vec<u8> = [2u8, 3].iter().copied().filter(|h| !notes.contains(&(200 + *h as usize))).collect();
            if !missing.is_empty() {
                problems.push(("C14", format!(
                    "a sink task parked, then {} refused sends of another task; after the receive the tasks of handles {:?} were not notified (notified: {:?})",
                    4 * k, missing, notes
                )));
            }
        }
        _ => {
            // k sink tasks park on a full queue (capacity 1)
            for &h in &extra {
                run(opd(CloneH, 0, h));
            }
            let r = run(opv(TrySend, 0, 7));
            if r != Some(Res::Ok) {
                problems.push(("C15", format!("first try_send gave {:?}", r)));
            }
            for (i, &h) in extra.iter().enumerate() {
                let r = run(opv(StartSend, h, 20 + i as u32));
                if r != Some(Res::NotReadyMsg(20 + i as u32)) {
                    problems.push(("C15", format!("start_send on a full queue gave {:?}", r)));
                }
            }
            let _ = rt::take_seq_notifies();
            let last_leaves = mode == 4 || mode == 10 || mode == 11;
            let ev = match mode {
                3 => op(TryRecv, 1),
                4 => op(DropH, 1),
                10 => opv(Unsub, 1, 1),
                11 => opd(DropInTask, 1, extra[0]),
                _ => op(PollS, 1),
            };
            let r = run(if ev.k == Unsub { op(Unsub, 1) } else { ev });
            if !last_leaves && r != Some(Res::Val(7)) {
                problems.push(("C15", format!("{:?} on a full queue gave {:?}", ev.k, r)));
            }
            let notes = rt::take_seq_notifies();
            let missing: Vec<u8> = extra.iter().copied().filter(|h| !notes.contains(&(200 + *h as usize))).collect();
            if !missing.is_empty() {
                let d = format!(
                    "{} sink tasks parked; after {:?} the tasks of handles {:?} were not notified (notified: {:?})",
                    extra.len(), ev.k, missing, notes
                );
                problems.push(("C14", d.clone()));
                if last_leaves {
                    problems.push(("C13", d));
                }
            }
            // the first task to retry gets the slot, the others are refused again
            for (i, &h) in extra.iter().enumerate() {
                let v = 20 + i as u32;
                let r = run(opv(StartSend, h, v));
                let ok = match mode {
                    4 | 10 | 11 => r == Some(Res::SinkErr(v)),
                    _ => (i == 0 && r == Some(Res::Ready)) || (i > 0 && r == Some(Res::NotReadyMsg(v))),
                };
                if !ok {
                    problems.push((
                        if last_leaves { "C13" } else { "C15" },
                        format!("retry of start_send #{} after {:?} gave {:?}", i, ev.k, r),
                    ));
                }
            }
        }
    }
    st.histories += 1;
    st.calls += calls;
    st.depth = st.depth.max(calls as usize);
    st.states.insert(0xC0_0000 + (mode as u64) * 1000 + (k as u64) * 10 + if fl == Flavour::B { 1 } else { 0 });
    let mut seen: Vec<&'static str> = Vec::new();
    for (prop, d) in problems {
        if seen.contains(&prop) {
            continue;
        }
        seen.push(prop);
        st.find(prop, format!("{}|crowd|{}", prop, label), &hist_s, d);
    }
    let _ = rt::seq_call(|| {
        for i in 0..NSLOTS as u8 {
            if ctx.slot_live(i) {
                ctx.exec(MAIN, &op(DropH, i));
            }
        }
    });
    let _ = rt::seq_call(|| tracked(|| drop(ctx)));
    let mem = rt::exec_end();
    for m in &mem.faults {
        st.find("C16", format!("C16|{:?}|crowd|{}", m, label), &hist_s, format!("{:?}", m));
    }
}

/// Population histories: K = 1..12 extra streams (broadcast) or consumer handles
/// of one stream (mpmc) and up to 8 extra senders; one stream lags; then the
/// streams leave in three different orders. Every result is compared with the
/// reference model (the scan over the stream list, the list surgery on
/// removal and the slowest-stream rule all depend on the population).
fn many(st: &mut SeqStats, fl: Flavour, fut: bool, k: usize, lag: usize, order: usize) {
    let qc = if fut {
        crate::catalog::qf(fl, 2, (0, 0))
    } else {
        crate::catalog::q(fl, 2, WaitK::Busy)
    };
    let n = qc.n() as usize;
    let c = SeqCfg {
        qc,
        max_senders: 12,
        max_recv: 14,
        max_streams: 14,
        depth: 0,
        orders: 1,
        blocking: false,
        uni_streams: false,
        suffix: "",
        pre: 0,
    };
    let label = format!(
        "{}{}|{}",
        if fl == Flavour::B { "bcast" } else { "mpmc" },
        if fut { "-fut" } else { "" },
        if k > 8 { "more-than-8" } else { "up-to-8" }
    );
    let mut ops: Vec<Op> = Vec::new();
    let hs: Vec<u8> = (2..2 + k as u8).collect();
    let mut val = 1u32;
    let mut removal_from = usize::MAX;
    if fl == Flavour::B {
        for &h in &hs {
            ops.push(opd(AddStream, 1, h));
        }
        let mut all: Vec<u8> = vec![1];
        all.extend(&hs);
        let lagh = all[lag % all.len()];
        // extra senders, one send each while there is room
        let ns = k.min(8);
        for i in 0..ns {
            ops.push(opd(CloneH, 0, 14 + i as u8));
        }
        for i in 0..n {
            ops.push(opv(TrySend, if i < ns { 14 + i as u8 } else { 0 }, val));
            val += 1;
        }
        for &h in &all {
            for i in 0..n {
                if h == lagh && i == n - 1 {
                    continue;
                }
                ops.push(op(TryRecv, h));
            }
        }
        for _ in 0..2 {
            ops.push(opv(TrySend, 0, val));
            val += 1;
        }
        ops.push(op(TryRecv, lagh));
        for _ in 0..2 {
            ops.push(opv(TrySend, 0, val));
            val += 1;
        }
        for i in 0..ns {
            ops.push(op(DropH, 14 + i as u8));
        }
        // the streams leave: ascending, descending, the lagging one first
        let mut leave = all.clone();
        match order {
            0 => {}
            1 => leave.reverse(),
            _ => {
                leave.retain(|h| *h != lagh);
                leave.insert(0, lagh);
            }
        }
        removal_from = ops.len();
        for (i, &h) in leave.iter().enumerate() {
            if i + 1 == leave.len() {
                // the last stream drains before it leaves
                for _ in 0..=n {
                    ops.push(op(TryRecv, h));
                }
            }
            ops.push(opv(Unsub, h, fut as u32));
            ops.push(opv(TrySend, 0, val));
            val += 1;
        }
    } else {
        for &h in &hs {
            ops.push(opd(CloneH, 1, h));
        }
        let mut all: Vec<u8> = vec![1];
        all.extend(&hs);
        let ns = k.min(8);
        for i in 0..ns {
            ops.push(opd(CloneH, 0, 14 + i as u8));
        }
        // three rounds: fill, one extra (refused), consumers take turns
        for round in 0..3 {
            for i in 0..=n {
                let snd = if ns > 0 { 14 + ((i + round) % ns) as u8 } else { 0 };
                ops.push(opv(TrySend, snd, val));
                val += 1;
            }
            for i in 0..=n {
                ops.push(op(TryRecv, all[(i + round + lag) % all.len()]));
            }
        }
        let mut leave = all.clone();
        if order == 1 {
            leave.reverse();
        } else if order == 2 {
            leave.rotate_left(lag % all.len());
        }
        removal_from = ops.len();
        for &h in &leave {
            ops.push(opv(TrySend, 0, val));
            val += 1;
            ops.push(op(TryRecv, h));
            ops.push(opv(Unsub, h, fut as u32));
        }
        ops.push(opv(TrySend, 0, val));
    }
    let hsr = ops_to_string(&ops);
    let mut ms = MState::new(n);
    let mut preds = Vec::new();
    let mut pred_of_op: Vec<usize> = Vec::new();
    for (i, o) in ops.iter().enumerate() {
        let r = ms.step(o, fl);
        for _ in 0..r.len() {
            pred_of_op.push(i);
        }
        preds.extend(r);
    }
    let out = run_history(&c, &ops, 0, st, &hsr, true);
    st.histories += 1;
    st.states.insert(ms.key() ^ ((k as u64) << 44) ^ ((lag as u64) << 50) ^ ((order as u64) << 56));
    st.depth = st.depth.max(ops.len());
    let real: Vec<Res> = out.evs.iter().map(|e| e.res.clone()).collect();
    if real != preds {
        let i = real
            .iter()
            .zip(preds.iter())
            .position(|(a, b)| a != b)
            .unwrap_or(real.len().min(preds.len()));
        let oi = pred_of_op.get(i).copied().unwrap_or(ops.len() - 1);
        let opi = &ops[oi];
        let exp = preds.get(i).map(res_class).unwrap_or("nothing".into());
        let got = real.get(i).map(res_class).unwrap_or("nothing".into());
        let detail = format!("{} extra handles/streams, lagging #{}, leave order {}: event {} ({:?} on handle {}) differs: model {:?}, implementation {:?}",
            k, lag, order, i, opi.k, opi.h, preds.get(i), real.get(i));
        st.find(
            "C09",
            format!("C09|model-mismatch|population|op={:?}|expected={}|got={}|{}", opi.k, exp, got, label),
            &hsr,
            detail.clone(),
        );
        if matches!(opi.k, TrySend | StartSend) {
            let prop = if oi >= removal_from { "C11" } else { "C03" };
            st.find(
                prop,
                format!("{}|population|send-differs-from-model|expected={}|got={}|{}", prop, exp, got, label),
                &hsr,
                detail.clone(),
            );
        }
        if matches!(opi.k, TryRecv) {
            st.find(
                "C01",
                format!("C01|population|receive-differs-from-model|expected={}|got={}|{}", exp, got, label),
                &hsr,
                detail.clone(),
            );
        }
        if matches!(opi.k, Unsub) {
            st.find(
                "C11",
                format!("C11|population|unsubscribe-differs-from-model|expected={}|got={}|{}", exp, got, label),
                &hsr,
                detail,
            );
        }
    }
}

fn print(st: &SeqStats) {
    println!("STAT\thistories\t{}", st.histories);
    println!("STAT\tcalls\t{}", st.calls);
    println!("STAT\tdepth\t{}", st.depth);
    println!("STAT\tcapped\t{}", st.capped as u8);
    println!("STAT\tconfigs\t{}", st.configs.join(";"));
    for s in &st.states {
        println!("OUTCOME\t{:x}\t1", s);
    }
    for (sig, (prop, n, h, d)) in &st.findings {
        println!(
            "FINDING\t{}\t{}\t{}\t{}\t-\t{}",
            prop,
            sig.replace('\t', " "),
            n,
            h,
            d.replace(['\t', '\n'], " ")
        );
    }
    for e in st.errs.iter().take(5) {
        println!("ERR\t{}", e.replace(['\t', '\n'], " "));
    }
    for s in &st.sample {
        println!("SAMPLE\t{}", s.replace(['\t', '\n'], " "));
    }
}

pub fn main(prop: &str, tier: Tier, si: usize, sk: usize) {
    let mut st = SeqStats::default();
    let thorough = tier == Tier::Thorough;
    let deadline = Instant::now() + Duration::from_secs(if thorough { 1800 } else { 40 });
    if matches!(prop, "C04" | "C05" | "C09" | "C13" | "C14" | "C15" | "C16" | "C17") {
        for c in configs(prop, tier) {
            st.configs.push(format!("{}:depth{}", c.qc.label(), c.depth));
            let fl = format!(
                "{}{}{}",
                if c.qc.fl == Flavour::B { "bcast" } else { "mpmc" },
                if c.qc.fut { "-fut" } else { "" },
                c.suffix
            );
            let mut d = Dfs {
                c,
                st: &mut st,
                deadline,
                shard: (si, sk),
                frontier_depth: 2,
                frontier_idx: 0,
                fl,
            };
            d.node(&mut Vec::new());
        }
    }
    if matches!(prop, "C03" | "C09") {
        // capacity normalisation and long wrapped histories, capacities 0..9
        let mut jobs = Vec::new();
        for fl in [Flavour::B, Flavour::M] {
            for fut in [false, true] {
                for cap in 0..=9u64 {
                    jobs.push((fl, fut, cap));
                }
            }
        }
        for (j, (fl, fut, cap)) in jobs.into_iter().enumerate() {
            if j % sk != si {
                continue;
            }
            if !thorough && fut && cap > 4 {
                continue;
            }
            let label = format!(
                "{}{}",
                if fl == Flavour::B { "bcast" } else { "mpmc" },
                if fut { "-fut" } else { "" }
            );
            st.configs.push(format!("pump:{}:cap{}", label, cap));
            pump(&mut st, fl, fut, cap, &label);
        }
    }
    if matches!(prop, "C17" | "C12" | "C09") {
        // C17 judges the memory held during the churn; C09 and C12 the results of
        // the calls the fixed handles make between the cycles
        let mut jobs = Vec::new();
        let sizes: &[usize] = match (prop, thorough) {
            ("C17", true) => &[100, 1000, 10_000, 100_000],
            ("C17", false) => &[100, 1000],
            (_, true) => &[100, 1000],
            (_, false) => &[100],
        };
        for fl in [Flavour::B, Flavour::M] {
            for fut in [false, true] {
                for &cy in sizes {
                    for early in [false, true] {
                        for kind in 0..8 {
                            if kind == 4 && early {
                                continue;
                            }
                            jobs.push((fl, fut, cy, early, kind, 1usize, false));
                            if !early {
                                jobs.push((fl, fut, cy, early, kind, 16usize, false));
                                jobs.push((fl, fut, cy, early, kind, 1usize, true));
                            }
                        }
                    }
                }
            }
        }
        for (j, (fl, fut, cy, early, kind, burst, primed)) in jobs.into_iter().enumerate() {
            if j % sk != si {
                continue;
            }
            st.configs.push(format!("churn:{:?}:{}:{}:{}:{}:{}:{}", fl, fut, cy, early, kind, burst, primed));
            churn(&mut st, fl, fut, cy, early, kind, burst, primed);
        }
    }
    if matches!(prop, "C09" | "C03" | "C11" | "C01") {
        let mut j = 0;
        for fl in [Flavour::B, Flavour::M] {
            for fut in [false, true] {
                for k in 1..=12usize {
                    for lag in [0, k / 2, k] {
                        for order in 0..3 {
                            j += 1;
                            if j % sk != si {
                                continue;
                            }
                            many(&mut st, fl, fut, k, lag, order);
                        }
                    }
                }
            }
        }
        st.configs.push("population:1..12-streams-or-handles".to_string());
    }
    if matches!(prop, "C14" | "C07" | "C13" | "C15" | "C11") {
        let mut j = 0;
        for fl in [Flavour::B, Flavour::M] {
            for mode in 0..12 {
                for k in 1..=12usize {
                    j += 1;
                    if j % sk != si {
                        continue;
                    }
                    crowd(&mut st, fl, mode, k);
                }
            }
        }
        st.configs.push("crowd:1..12-parked-tasks".to_string());
    }
    print(&st);
}

pub fn replay(path: &str) {
    // minimal JSON field extraction (the file is written by ./check)
    let txt = std::fs::read_to_string(path).expect("replay file");
    let field = |name: &str| -> String {
        let k = format!("\"{}\": \"", name);
        let i = txt.find(&k).map(|i| i + k.len()).unwrap_or(0);
        let j = txt[i..].find('"').map(|j| i + j).unwrap_or(i);
        txt[i..j].to_string()
    };
    let hist = field("prefix");
    let cfgs = field("seq_config");
    println!("history: {}", hist);
    println!("config : {}", cfgs);
    if hist.starts_with("churn") || hist.is_empty() {
        println!("(churn / pump finding: re-run the check to reproduce)");
        return;
    }
    let ops = ops_from_string(&hist);
    // try every family/capacity that the signature could come from
    let sig = field("signature");
    for fl in [Flavour::B, Flavour::M] {
        for fut in [false, true] {
            let lbl = format!(
                "{}{}",
                if fl == Flavour::B { "bcast" } else { "mpmc" },
                if fut { "-fut" } else { "" }
            );
            for cap in [1u64, 2, 0, 3, 4] {
                let qc = if fut {
                    crate::catalog::qf(fl, cap, (0, 0))
                } else {
                    crate::catalog::q(fl, cap, WaitK::Busy)
                };
                let c = SeqCfg {
                    qc,
                    max_senders: 3,
                    max_recv: 4,
                    max_streams: 3,
                    depth: ops.len(),
                    orders: 4,
                    blocking: true,
                    uni_streams: true,
                    suffix: if sig.contains("+second-stream-via-add_stream_with") {
                        "+second-stream-via-add_stream_with"
                    } else {
                        churn_suffix(churn_of_sig(&sig))
                    },
                    pre: churn_of_sig(&sig),
                };
                // the history must be well-formed for this family
                let ok = std::panic::catch_unwind(|| {
                    let mut ms = MState::new(qc.n() as usize);
                    for o in &ops {
                        if ms.slots[o.h as usize].is_none() {
                            panic!("dead slot");
                        }
                        if matches!(o.k, StartSend | PollS | Transform | AddStreamWith) && !fut {
                            panic!("not fut");
                        }
                        if matches!(o.k, TryIter | TryIterWith | TryRecvView | RecvView) && fut {
                            panic!("not plain");
                        }
                        if matches!(o.k, AddStream) && fl == Flavour::M {
                            panic!("no add_stream");
                        }
                        ms.step(o, fl);
                    }
                });
                if ok.is_err() {
                    continue;
                }
                for order in 0..4 {
                    let mut st = SeqStats::default();
                    let out = run_history(&c, &ops, order, &mut st, &hist, true);
                    let mut ms = MState::new(qc.n() as usize);
                    let mut preds = Vec::new();
                    let mut expect: Vec<Vec<usize>> = Vec::new();
                    for o in &out.exec_ops {
                        if ms.slots[o.h as usize].is_none() {
                            break;
                        }
                        preds.extend(ms.step(o, fl));
                        expect.push(ms.expect_notify.clone());
                    }
                    let mut d = Dfs {
                        c,
                        st: &mut st,
                        deadline: Instant::now() + Duration::from_secs(60),
                        shard: (0, 1),
                        frontier_depth: 0,
                        frontier_idx: 0,
                        fl: format!("{}{}", lbl, c.suffix),
                    };
                    d.compare(&ops, &out, &preds, &hist, true, &expect);
                    if std::env::var("MQV_SHOW").is_ok() && order == 0 {
                        println!("--- {} cap {}", lbl, cap);
                        for e in &out.evs {
                            println!("  {:?} h{} v{} -> {:?}", e.k, e.h, e.val, e.res);
                        }
                        println!("  model predicted: {:?}", preds);
                        for (k, v) in &st.findings {
                            println!("  FINDING {} :: {}", k, v.3);
                        }
                    }
                    if st.findings.keys().any(|k| *k == sig) {
                        println!("--- reproduced on {} cap {} teardown order {}", lbl, cap, order);
                        for e in &out.evs {
                            println!("  {:?} h{} v{} -> {:?}", e.k, e.h, e.val, e.res);
                        }
                        println!("  model predicted: {:?}", preds);
                        println!("  notifications per op: {:?}", out.notifies);
                        for (k, v) in &st.findings {
                            println!("  FINDING {} :: {}", k, v.3);
                        }
                        return;
                    }
                }
            }
        }
    }
    println!("not reproduced");
    std::process::exit(3);
}
