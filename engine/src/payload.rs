//! Instrumented payload and its per-execution ledger.

use crate::valloc::Untrack;
use multiqueue2::verif_hooks::user_point;
use std::sync::Mutex;

#[derive(Clone, Debug, PartialEq, Eq, Hash)]
pub enum PFault {
    /// id/complement/serial do not describe a value the harness created
    Corrupt { at: &'static str },
    /// the instance was already dropped when it was cloned/viewed/delivered
    DeadAccess { at: &'static str },
    /// the memory under a clone/view changed identity during the call
    ChangedDuring { at: &'static str },
    DroppedWhileBorrowed,
    DoubleDrop,
}

#[derive(Clone, Debug)]
pub struct Ent {
    pub id: u32,
    pub parent: Option<u32>,
    pub drops: u32,
    pub borrows: u32,
}

pub struct Ledger {
    pub ents: Vec<Ent>,
    pub faults: Vec<PFault>,
    /// number of scheduling points inside Clone::clone / view closures
    pub slow: u32,
    pub clones: u32,
    pub views: u32,
}

static LEDGER: Mutex<Ledger> = Mutex::new(Ledger {
    ents: Vec::new(),
    faults: Vec::new(),
    slow: 0,
    clones: 0,
    views: 0,
});

fn led() -> std::sync::MutexGuard<'static, Ledger> {
    match LEDGER.lock() {
        Ok(g) => g,
        Err(p) => p.into_inner(),
    }
}

impl Ledger {
    fn fault(&mut self, f: PFault) {
        if !self.faults.contains(&f) {
            self.faults.push(f);
        }
    }
}

pub fn ledger_reset(slow: u32) {
    let mut l = led();
    l.ents.clear();
    l.faults.clear();
    l.slow = slow;
    l.clones = 0;
    l.views = 0;
}

pub struct LedgerReport {
    pub faults: Vec<PFault>,
    pub never_dropped: Vec<(u32, u32)>, // (serial, id)
    pub instances: usize,
    pub clones: u32,
    pub views: u32,
}

pub fn ledger_report() -> LedgerReport {
    let l = led();
    LedgerReport {
        faults: l.faults.clone(),
        never_dropped: l
            .ents
            .iter()
            .enumerate()
            .filter(|(_, e)| e.drops == 0)
            .map(|(s, e)| (s as u32, e.id))
            .collect(),
        instances: l.ents.len(),
        clones: l.clones,
        views: l.views,
    }
}

/// The payload: carries an id, its complement and the serial of this very
/// instance. No heap memory, so use of a stale copy can never crash.
pub struct P {
    pub id: u32,
    nid: u32,
    serial: u32,
    nserial: u32,
}

unsafe impl Sync for P {}

impl P {
    pub fn new(id: u32) -> P {
        let _u = Untrack::new();
        let mut l = led();
        let serial = l.ents.len() as u32;
        l.ents.push(Ent {
            id,
            parent: None,
            drops: 0,
            borrows: 0,
        });
        P {
            id,
            nid: !id,
            serial,
            nserial: !serial,
        }
    }

    pub fn serial(&self) -> u32 {
        self.serial
    }

    /// Checks that `self` is an intact, live instance. Returns its serial.
    fn check(&self, l: &mut Ledger, at: &'static str) -> Option<u32> {
        let (id, nid, serial, nserial) = unsafe {
            let p = self as *const P;
            (
                std::ptr::read_volatile(&(*p).id),
                std::ptr::read_volatile(&(*p).nid),
                std::ptr::read_volatile(&(*p).serial),
                std::ptr::read_volatile(&(*p).nserial),
            )
        };
        if id != !nid || serial != !nserial || serial as usize >= l.ents.len() {
            l.fault(PFault::Corrupt { at });
            return None;
        }
        if l.ents[serial as usize].id != id {
            l.fault(PFault::Corrupt { at });
            return None;
        }
        if l.ents[serial as usize].drops > 0 {
            l.fault(PFault::DeadAccess { at });
            return None;
        }
        Some(serial)
    }

    /// A borrow of arbitrary duration (clone / view closure body).
    fn borrow_scope(&self, at: &'static str, at_end: &'static str) -> u32 {
        let (s0, slow) = {
            let mut l = led();
            let s = self.check(&mut l, at);
            if let Some(s) = s {
                l.ents[s as usize].borrows += 1;
            }
            (s, l.slow)
        };
        for _ in 0..slow {
            user_point(self as *const P as usize);
        }
        let mut l = led();
        if let Some(s) = s0 {
            l.ents[s as usize].borrows -= 1;
            let s1 = self.check(&mut l, at_end);
            if s1.is_some() && s1 != Some(s) {
                l.fault(PFault::ChangedDuring { at: at_end });
            }
        }
        self.id
    }

    /// What a view closure does with the reference it is given.
    pub fn view(&self) -> u32 {
        let _u = Untrack::new();
        led().views += 1;
        self.borrow_scope("view-begin", "view-end")
    }

    /// Check performed on every value handed to the harness by a receive.
    pub fn delivered(&self) -> u32 {
        let _u = Untrack::new();
        let mut l = led();
        self.check(&mut l, "delivered");
        self.id
    }
}

impl Clone for P {
    fn clone(&self) -> P {
        let _u = Untrack::new();
        let id = self.borrow_scope("clone-begin", "clone-end");
        let mut l = led();
        l.clones += 1;
        let serial = l.ents.len() as u32;
        let parent = if (self.serial as usize) < l.ents.len() - 0 {
            Some(self.serial)
        } else {
            None
        };
        l.ents.push(Ent {
            id,
            parent,
            drops: 0,
            borrows: 0,
        });
        P {
            id,
            nid: !id,
            serial,
            nserial: !serial,
        }
    }
}

impl Drop for P {
    fn drop(&mut self) {
        let _u = Untrack::new();
        // a destructor of arbitrary duration: whoever destroys a value in place
        // must own the slot for the whole time
        let slow = led().slow;
        for _ in 0..slow.min(1) {
            user_point(self as *const P as usize);
        }
        let mut l = led();
        if self.id != !self.nid
            || self.serial != !self.nserial
            || self.serial as usize >= l.ents.len()
            || l.ents[self.serial as usize].id != self.id
        {
            l.fault(PFault::Corrupt { at: "drop" });
            return;
        }
        let e = &mut l.ents[self.serial as usize];
        e.drops += 1;
        let (d, b) = (e.drops, e.borrows);
        if d > 1 {
            l.fault(PFault::DoubleDrop);
        }
        if b > 0 {
            l.fault(PFault::DroppedWhileBorrowed);
        }
    }
}

pub fn view_fn(p: &P) -> u32 {
    p.view()
}
