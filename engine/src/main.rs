mod catalog;
mod explore;
mod oracles;
mod ops;
mod payload;
mod rt;
mod scenario;
mod selftest;
mod seqmc;
mod valloc;

#[global_allocator]
static GLOBAL: valloc::VAlloc = valloc::VAlloc;

use catalog::Tier;
use std::time::{Duration, Instant};

fn tier_of(s: &str) -> Tier {
    match s {
        "quick" => Tier::Quick,
        "thorough" => Tier::Thorough,
        _ => {
            eprintln!("tier must be quick|thorough");
            std::process::exit(2)
        }
    }
}

fn clean(s: &str) -> String {
    s.replace(['\t', '\n', '\r'], " ")
}

fn csv(v: &[u8]) -> String {
    v.iter().map(|x| x.to_string()).collect::<Vec<_>>().join(",")
}

fn parse_csv(s: &str) -> Vec<u8> {
    if s.is_empty() || s == "-" {
        return vec![];
    }
    s.split(',').map(|x| x.parse().unwrap()).collect()
}

pub fn print_stats(st: &explore::Stats) {
    println!("STAT\tscenario\t{}", st.scenario);
    println!("STAT\tthreads\t{}", st.threads);
    println!("STAT\tbound\t{}", if st.bound == explore::UNBOUNDED { -1 } else { st.bound as i64 });
    println!("STAT\texecs\t{}", st.execs);
    println!("STAT\tcomplete\t{}", st.complete);
    println!("STAT\thangs\t{}", st.hangs);
    println!("STAT\thorizons\t{}", st.horizons);
    println!("STAT\tfaults\t{}", st.faults);
    println!("STAT\tmax_points\t{}", st.max_points);
    println!("STAT\tmax_steps\t{}", st.max_steps);
    println!("STAT\tsum_steps\t{}", st.sum_steps);
    println!("STAT\tcapped\t{}", st.capped as u8);
    println!("STAT\twall_ms\t{}", st.wall_ms);
    for o in &st.outcomes {
        println!(
            "OUTCOME\t{:x}\t{}",
            o,
            st.nontrivial_outcomes.contains(o) as u8
        );
    }
    for (sig, fr) in &st.findings {
        println!(
            "FINDING\t{}\t{}\t{}\t{}\t{}\t{}",
            fr.finding.prop,
            clean(sig),
            fr.count,
            if fr.prefix.is_empty() { "-".to_string() } else { csv(&fr.prefix) },
            if fr.expect_n.is_empty() { "-".to_string() } else { csv(&fr.expect_n) },
            clean(&fr.finding.detail)
        );
    }
    for e in &st.machinery_errors {
        println!("ERR\t{}", clean(e));
    }
    for s in &st.sample {
        println!("SAMPLE\t{}", clean(s));
    }
}

fn main() {
    rt::install_panic_hook();
    rt::seq_enter();
    let args: Vec<String> = std::env::args().collect();
    let a = |i: usize| args.get(i).map(|s| s.as_str()).unwrap_or("");
    match a(1) {
        "list" => {
            // list <prop> <tier>
            let ts = catalog::tasks(a(2), tier_of(a(3)));
            for t in &ts {
                if let Err(e) = catalog::validate(&t.scn) {
                    eprintln!("MACHINERY ERROR: bad scenario: {}", e);
                    std::process::exit(2);
                }
            }
            for (i, t) in ts.iter().enumerate() {
                println!(
                    "TASK\t{}\t{}\t{}\t{}\t{}",
                    i,
                    t.scn.name,
                    if t.c == explore::UNBOUNDED { -1 } else { t.c as i64 },
                    t.shards,
                    t.scn.threads.len()
                );
            }
        }
        "worker" => {
            // worker <prop> <tier> <idx> <shard_i> <shard_k> <deadline_s>
            let ts = catalog::tasks(a(2), tier_of(a(3)));
            let idx: usize = a(4).parse().unwrap();
            let si: usize = a(5).parse().unwrap();
            let sk: usize = a(6).parse().unwrap();
            let dl: u64 = a(7).parse().unwrap_or(3600);
            let t = &ts[idx];
            // MQV_C overrides the deviation bound (experiments)
            let c = std::env::var("MQV_C").ok().and_then(|v| v.parse().ok()).unwrap_or(t.c);
            let st = explore::explore(
                &t.scn,
                c,
                (si, sk),
                t.cap,
                Instant::now() + Duration::from_secs(dl),
            );
            print_stats(&st);
        }
        "replay" => {
            // replay <prop> <tier> <idx> <prefix csv> <ns csv>
            let ts = catalog::tasks(a(2), tier_of(a(3)));
            let idx: usize = a(4).parse().unwrap();
            let t = &ts[idx];
            let prefix = parse_csv(a(5));
            let ns = parse_csv(a(6));
            let o = explore::opts_for(&t.scn, &prefix, &ns, true, true);
            let r1 = scenario::run_one(&t.scn, &o);
            let r2 = scenario::run_one(&t.scn, &o);
            println!("scenario: {}", t.scn.name);
            println!("prefix ops: {:?}", t.scn.prefix);
            for (i, th) in t.scn.threads.iter().enumerate() {
                println!("thread {}: {:?}", i, th);
            }
            println!(
                "replayed twice: trace hashes {:x} / {:x} ({})",
                r1.rec.trace_hash,
                r2.rec.trace_hash,
                if r1.rec.trace_hash == r2.rec.trace_hash {
                    "identical"
                } else {
                    "DIFFERENT - nondeterminism"
                }
            );
            println!("--- schedule trace ({} steps, status {:?})", r1.rec.steps, r1.rec.status);
            for l in &r1.rec.trace {
                println!("  {}", l);
            }
            println!("--- history");
            for l in oracles::dump_history(&r1) {
                println!("  {}", l);
            }
            println!("--- findings");
            let fs = oracles::judge(&t.scn, &r1);
            for f in &fs {
                println!("  {} {} :: {}", f.prop, f.sig, f.detail);
            }
            if r1.rec.trace_hash != r2.rec.trace_hash {
                std::process::exit(2);
            }
            if let rt::Status::Diverged(_) = r1.rec.status {
                std::process::exit(2);
            }
        }
        "selftest" => {
            if !selftest::run() {
                std::process::exit(1);
            }
        }
        "seq" => {
            // seq <prop> <tier> <shard_i> <shard_k>
            seqmc::main(a(2), tier_of(a(3)), a(4).parse().unwrap_or(0), a(5).parse().unwrap_or(1));
        }
        "seq-replay" => {
            seqmc::replay(a(2));
        }
        _ => {
            eprintln!("usage: mqv list|worker|replay|selftest|seq ...");
            std::process::exit(2);
        }
    }
}
