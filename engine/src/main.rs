mod explore;
mod oracles;
mod ops;
mod payload;
mod rt;
mod scenario;
mod valloc;

#[global_allocator]
static GLOBAL: valloc::VAlloc = valloc::VAlloc;

use ops::*;
use scenario::*;
use std::time::{Duration, Instant};

fn dev() {
    let cfg = QCfg {
        fl: Flavour::M,
        fut: false,
        cap: 2,
        wait: WaitK::Busy,
        spins: None,
    };
    let mut s = Scn::new("dev-1p3-1c3", cfg);
    s.threads = vec![
        vec![
            opv(OpK::TrySend, 0, 1),
            opv(OpK::TrySend, 0, 2),
            opv(OpK::TrySend, 0, 3),
            op(OpK::DropH, 0),
        ],
        vec![
            op(OpK::TryRecv, 1),
            op(OpK::TryRecv, 1),
            op(OpK::TryRecv, 1),
            op(OpK::DropH, 1),
        ],
    ];
    s.post = Post::Drain;
    for c in 0..4 {
        let st = explore::explore(
            &s,
            c,
            (0, 1),
            u64::MAX,
            Instant::now() + Duration::from_secs(600),
        );
        println!(
            "c={} execs={} complete={} hangs={} outcomes={} nontrivial={} max_points={} max_steps={} ms={} errs={:?}",
            c,
            st.execs,
            st.complete,
            st.hangs,
            st.outcomes.len(),
            st.nontrivial_outcomes.len(),
            st.max_points,
            st.max_steps,
            st.wall_ms,
            st.machinery_errors
        );
        for (sig, fr) in &st.findings {
            println!("  FINDING {} x{} :: {}", sig, fr.count, fr.finding.detail);
        }
    }
}

fn main() {
    rt::install_panic_hook();
    rt::seq_enter();
    let args: Vec<String> = std::env::args().collect();
    match args.get(1).map(|s| s.as_str()) {
        Some("dev") => dev(),
        _ => eprintln!("usage: mqv dev"),
    }
}
