//! Handle table, operation alphabet and the interpreter that applies
//! operations to the real multiqueue2 handles while recording a history.

use crate::payload::{view_fn, P};
use crate::rt::{self, AbortToken, OpStats};
use crate::valloc::{tracked, Untrack};
use futures::executor::{self, Notify, Spawn};
use futures::{Async, AsyncSink};
use multiqueue2::wait::{BlockingWait, BusyWait, YieldingWait};
use multiqueue2::*;
use std::panic::{self, AssertUnwindSafe};
use std::sync::mpsc::{TryRecvError, TrySendError};
use std::sync::Mutex;

pub type VF = fn(&P) -> u32;

/// A scenario that applies an operation to the wrong kind of handle is a bug
/// in the harness, never a verdict.
pub fn bad(msg: String) -> ! {
    eprintln!("MACHINERY ERROR: bad scenario: {}", msg);
    std::process::exit(2)
}

pub trait Lk<T> {
    fn lk(&self) -> std::sync::MutexGuard<'_, T>;
}
impl<T> Lk<T> for Mutex<T> {
    fn lk(&self) -> std::sync::MutexGuard<'_, T> {
        match self.lock() {
            Ok(g) => g,
            Err(p) => p.into_inner(),
        }
    }
}

pub enum H {
    BS(BroadcastSender<P>),
    BR(BroadcastReceiver<P>),
    BU(BroadcastUniReceiver<P>),
    MS(MPMCSender<P>),
    MR(MPMCReceiver<P>),
    MU(MPMCUniReceiver<P>),
    BFS(Spawn<BroadcastFutSender<P>>),
    BFR(Spawn<BroadcastFutReceiver<P>>),
    BFU(Spawn<BroadcastFutUniReceiver<u32, VF, P>>),
    MFS(Spawn<MPMCFutSender<P>>),
    MFR(Spawn<MPMCFutReceiver<P>>),
    MFU(Spawn<MPMCFutUniReceiver<u32, VF, P>>),
}

impl H {
    pub fn kind(&self) -> &'static str {
        match self {
            H::BS(_) => "BroadcastSender",
            H::BR(_) => "BroadcastReceiver",
            H::BU(_) => "BroadcastUniReceiver",
            H::MS(_) => "MPMCSender",
            H::MR(_) => "MPMCReceiver",
            H::MU(_) => "MPMCUniReceiver",
            H::BFS(_) => "BroadcastFutSender",
            H::BFR(_) => "BroadcastFutReceiver",
            H::BFU(_) => "BroadcastFutUniReceiver",
            H::MFS(_) => "MPMCFutSender",
            H::MFR(_) => "MPMCFutReceiver",
            H::MFU(_) => "MPMCFutUniReceiver",
        }
    }
    pub fn is_sender(&self) -> bool {
        matches!(self, H::BS(_) | H::MS(_) | H::BFS(_) | H::MFS(_))
    }
}

#[derive(Clone, Copy, Debug, PartialEq, Eq, Hash)]
pub enum Flavour {
    B,
    M,
}

#[derive(Clone, Copy, Debug, PartialEq, Eq, Hash)]
pub enum WaitK {
    Busy,
    Yield(usize, usize),
    Block(usize, usize),
    /// the queue constructor without a wait argument (BlockingWait 50/50)
    Default,
}

#[derive(Clone, Copy, Debug, PartialEq, Eq, Hash)]
pub struct QCfg {
    pub fl: Flavour,
    pub fut: bool,
    pub cap: u64,
    pub wait: WaitK,
    /// futures queues: Some(spins) = *_fut_queue_with, None = default ctor
    pub spins: Option<(usize, usize)>,
}

impl QCfg {
    pub fn n(&self) -> u64 {
        if self.cap == 0 {
            1
        } else {
            self.cap.next_power_of_two()
        }
    }
    pub fn label(&self) -> String {
        format!(
            "{}{}-cap{}-{}",
            match self.fl {
                Flavour::B => "bcast",
                Flavour::M => "mpmc",
            },
            if self.fut { "-fut" } else { "" },
            self.cap,
            if self.fut {
                match self.spins {
                    Some((a, b)) => format!("spins{}_{}", a, b),
                    None => "spinsdefault".into(),
                }
            } else {
                match self.wait {
                    WaitK::Busy => "busy".into(),
                    WaitK::Yield(a, b) => format!("yield{}_{}", a, b),
                    WaitK::Block(a, b) => format!("block{}_{}", a, b),
                    WaitK::Default => "blockdefault".into(),
                }
            }
        )
    }
}

pub fn make_queue(c: &QCfg) -> (H, H) {
    match (c.fl, c.fut) {
        (Flavour::B, false) => {
            let (s, r) = match c.wait {
                WaitK::Busy => broadcast_queue_with::<P, _>(c.cap, BusyWait::new()),
                WaitK::Yield(a, b) => {
                    broadcast_queue_with::<P, _>(c.cap, YieldingWait::with_spins(a, b))
                }
                WaitK::Block(a, b) => {
                    broadcast_queue_with::<P, _>(c.cap, BlockingWait::with_spins(a, b))
                }
                WaitK::Default => broadcast_queue::<P>(c.cap),
            };
            (H::BS(s), H::BR(r))
        }
        (Flavour::M, false) => {
            let (s, r) = match c.wait {
                WaitK::Busy => mpmc_queue_with::<P, _>(c.cap, BusyWait::new()),
                WaitK::Yield(a, b) => mpmc_queue_with::<P, _>(c.cap, YieldingWait::with_spins(a, b)),
                WaitK::Block(a, b) => mpmc_queue_with::<P, _>(c.cap, BlockingWait::with_spins(a, b)),
                WaitK::Default => mpmc_queue::<P>(c.cap),
            };
            (H::MS(s), H::MR(r))
        }
        (Flavour::B, true) => {
            let (s, r) = match c.spins {
                Some((a, b)) => broadcast_fut_queue_with::<P>(c.cap, a, b),
                None => broadcast_fut_queue::<P>(c.cap),
            };
            (H::BFS(executor::spawn(s)), H::BFR(executor::spawn(r)))
        }
        (Flavour::M, true) => {
            let (s, r) = mpmc_fut_queue::<P>(c.cap);
            (H::MFS(executor::spawn(s)), H::MFR(executor::spawn(r)))
        }
    }
}

#[derive(Clone, Copy, Debug, PartialEq, Eq, Hash, PartialOrd, Ord)]
pub enum OpK {
    // primitive API calls (these appear in histories)
    TrySend,
    StartSend,
    PollComplete,
    CloneH,
    DropH,
    Unsub,
    TryRecv,
    Recv,
    TryRecvView,
    RecvView,
    PollS,
    AddStream,
    IntoSingle,
    IntoMulti,
    AddStreamWith,
    Transform,
    IterNext,
    // composite operations (expand into primitive events)
    SendRetry,
    SinkSend,
    StreamNext,
    RecvAll,
    TryRecvAll,
    StreamAll,
    /// drop the handle from inside the task of another handle (`dst`): a
    /// relay task that owns both ends
    DropInTask,
    TryIter,
    /// try_iter() under E1: the closing None is logged as Empty (it says
    /// "nothing right now", not "end of stream")
    TryIterE,
    TryIterWith,
    IterAll,
    IterWithAll,
    // harness
    Await,
    FlagSet,
}

#[derive(Clone, Copy, Debug, PartialEq, Eq, Hash)]
pub struct Op {
    pub k: OpK,
    pub h: u8,
    pub dst: u8,
    pub val: u32,
}

pub fn op(k: OpK, h: u8) -> Op {
    Op {
        k,
        h,
        dst: 0,
        val: 0,
    }
}
pub fn opv(k: OpK, h: u8, val: u32) -> Op {
    Op { k, h, dst: 0, val }
}
pub fn opd(k: OpK, h: u8, dst: u8) -> Op {
    Op {
        k,
        h,
        dst,
        val: 0,
    }
}

#[derive(Clone, Debug, PartialEq, Eq, Hash)]
pub enum Res {
    Ok,
    Full(u32),
    Disc(u32),
    Val(u32),
    Empty,
    End,
    Bool(bool),
    Unit,
    NotReady,
    NotReadyMsg(u32),
    Ready,
    SinkErr(u32),
    Converted(bool),
    Blocked,
    Panic(String),
}

#[derive(Clone, Debug)]
pub struct Ev {
    pub th: u8,
    pub h: u8,
    pub stream: u8,
    pub k: OpK,
    pub val: u32,
    pub start: u64,
    pub end: u64,
    pub res: Res,
    pub st: OpStats,
}

pub const MAIN: u8 = 255;
pub const NSLOTS: usize = 28;

/// Faults the interpreter itself notices (identity of handed-back payloads).
#[derive(Clone, Debug, PartialEq, Eq, Hash)]
pub enum HFault {
    RefusedSendReturnedOtherInstance,
    NotReadyReturnedOtherInstance,
}

pub struct Ctx {
    pub slots: Vec<Mutex<Option<H>>>,
    pub stream_of: Mutex<[u8; NSLOTS]>,
    pub hist: Mutex<Vec<Ev>>,
    pub hfaults: Mutex<Vec<HFault>>,
    pub cur_op: Mutex<[Option<(Op, u64)>; 9]>,
    pub cfg: QCfg,
}

struct HN;
impl Notify for HN {
    fn notify(&self, id: usize) {
        rt::task_notify(id);
    }
}
static NOTIFIER: HN = HN;

fn nref() -> &'static HN {
    &NOTIFIER
}

/// Result of one guarded call into the crate.
enum Call<R> {
    Done(R),
    Panicked(String),
}

fn guarded<R>(f: impl FnOnce() -> R) -> Call<R> {
    match panic::catch_unwind(AssertUnwindSafe(|| tracked(f))) {
        Ok(r) => Call::Done(r),
        Err(p) => {
            if p.is::<AbortToken>() {
                panic::resume_unwind(p);
            }
            Call::Panicked(rt::take_last_panic().unwrap_or_else(|| "panic".into()))
        }
    }
}

impl Ctx {
    pub fn new(cfg: QCfg) -> Ctx {
        Ctx {
            slots: (0..NSLOTS).map(|_| Mutex::new(None)).collect(),
            stream_of: Mutex::new([0; NSLOTS]),
            hist: Mutex::new(Vec::new()),
            hfaults: Mutex::new(Vec::new()),
            cur_op: Mutex::new([None; 9]),
            cfg,
        }
    }

    /// Creates the queue: sender in slot 0, receiver (stream 0) in slot 1.
    pub fn create(&self) {
        let (s, r) = tracked(|| make_queue(&self.cfg));
        *self.slots[0].lk() = Some(s);
        *self.slots[1].lk() = Some(r);
    }

    fn log(&self, th: u8, o: &Op, k: OpK, val: u32, start: u64, res: Res) {
        let (end, st) = rt::op_end();
        let _u = Untrack::new();
        let stream = self.stream_of.lk()[o.h as usize];
        self.hist.lk().push(Ev {
            th,
            h: o.h,
            stream,
            k,
            val,
            start,
            end,
            res,
            st,
        });
    }

    fn hfault(&self, f: HFault) {
        let mut v = self.hfaults.lk();
        if !v.contains(&f) {
            v.push(f);
        }
    }

    fn set_cur(&self, th: u8, o: Option<Op>) {
        let i = if th == MAIN { 8 } else { th as usize };
        self.cur_op.lk()[i] = o.map(|o| (o, rt::now()));
    }

    pub fn slot_live(&self, h: u8) -> bool {
        self.slots[h as usize].lk().is_some()
    }

    pub fn slot_kind(&self, h: u8) -> Option<&'static str> {
        self.slots[h as usize].lk().as_ref().map(|h| h.kind())
    }

    /// Executes one operation. Returns false if the thread must stop (panic
    /// inside the crate).
    pub fn exec(&self, th: u8, o: &Op) -> bool {
        self.set_cur(th, Some(*o));
        let r = self.exec_inner(th, o);
        self.set_cur(th, None);
        r
    }

    fn exec_inner(&self, th: u8, o: &Op) -> bool {
        use OpK::*;
        match o.k {
            TrySend => self.try_send(th, o, P::new(o.val)).1,
            SendRetry => {
                let mut v = P::new(o.val);
                loop {
                    let (back, ok) = self.try_send(th, o, v);
                    if !ok {
                        return false;
                    }
                    match back {
                        Some((p, true)) => {
                            v = p;
                            rt::harness_spin(1);
                        }
                        _ => return true,
                    }
                }
            }
            StartSend => self.start_send(th, o, P::new(o.val)).1,
            SinkSend => {
                let mut v = P::new(o.val);
                loop {
                    let (back, ok) = self.start_send(th, o, v);
                    if !ok {
                        return false;
                    }
                    match back {
                        Some(p) => {
                            v = p;
                            rt::task_park();
                        }
                        None => return true,
                    }
                }
            }
            PollComplete => self.poll_complete(th, o),
            CloneH => self.clone_h(th, o),
            DropH => self.drop_h(th, o),
            DropInTask => self.drop_in_task(th, o),
            Unsub => self.unsub(th, o),
            TryRecv | Recv | TryRecvView | RecvView | PollS => self.recv_like(th, o, o.k).1,
            StreamNext => loop {
                let (r, ok) = self.recv_like(th, o, PollS);
                if !ok {
                    return false;
                }
                match r {
                    Res::NotReady => rt::task_park(),
                    _ => return true,
                }
            },
            StreamAll => loop {
                let (r, ok) = self.recv_like(th, o, PollS);
                if !ok {
                    return false;
                }
                match r {
                    Res::NotReady => rt::task_park(),
                    Res::Val(_) => {}
                    _ => return true,
                }
            },
            RecvAll => loop {
                let (r, ok) = self.recv_like(th, o, Recv);
                if !ok {
                    return false;
                }
                match r {
                    Res::Val(_) => {}
                    _ => return true,
                }
            },
            TryRecvAll => loop {
                let (r, ok) = self.recv_like(th, o, TryRecv);
                if !ok {
                    return false;
                }
                match r {
                    Res::Val(_) => {}
                    Res::Empty => rt::harness_spin(2),
                    _ => return true,
                }
            },
            TryIter | TryIterE | TryIterWith | IterAll | IterWithAll => self.iter_like(th, o),
            AddStream | AddStreamWith => self.add_stream(th, o),
            IntoSingle | IntoMulti | Transform => self.convert(th, o),
            IterNext => unreachable!(),
            Await => {
                rt::flag_wait(o.val as usize);
                true
            }
            FlagSet => {
                rt::flag_set(o.val as usize);
                true
            }
        }
    }

    /// Returns (handed-back payload and whether it was Full, keep-going).
    fn try_send(&self, th: u8, o: &Op, v: P) -> (Option<(P, bool)>, bool) {
        let serial = v.serial();
        let id = v.id;
        let g = self.slots[o.h as usize].lk();
        let h = g.as_ref().unwrap_or_else(|| bad(format!("try_send on empty slot {}", o.h)));
        let start = rt::op_begin();
        let r = guarded(|| match h {
            H::BS(s) => s.try_send(v),
            H::MS(s) => s.try_send(v),
            H::BFS(s) => s.get_ref().try_send(v),
            H::MFS(s) => s.get_ref().try_send(v),
            _ => bad(format!("try_send on {}", h.kind())),
        });
        match r {
            Call::Done(Ok(())) => {
                self.log(th, o, OpK::TrySend, id, start, Res::Ok);
                (None, true)
            }
            Call::Done(Err(TrySendError::Full(p))) => {
                if p.serial() != serial {
                    self.hfault(HFault::RefusedSendReturnedOtherInstance);
                }
                self.log(th, o, OpK::TrySend, id, start, Res::Full(p.id));
                (Some((p, true)), true)
            }
            Call::Done(Err(TrySendError::Disconnected(p))) => {
                if p.serial() != serial {
                    self.hfault(HFault::RefusedSendReturnedOtherInstance);
                }
                self.log(th, o, OpK::TrySend, id, start, Res::Disc(p.id));
                (Some((p, false)), true)
            }
            Call::Panicked(m) => {
                self.log(th, o, OpK::TrySend, id, start, Res::Panic(m));
                (None, false)
            }
        }
    }

    /// Returns (message handed back with NotReady, keep-going).
    fn start_send(&self, th: u8, o: &Op, v: P) -> (Option<P>, bool) {
        let serial = v.serial();
        let id = v.id;
        let mut g = self.slots[o.h as usize].lk();
        let h = g.as_mut().unwrap_or_else(|| bad(format!("start_send on empty slot {}", o.h)));
        let kind = h.kind();
        let tid = rt::task_id_for(true, o.h);
        let start = rt::op_begin();
        let r = guarded(|| match h {
            H::BFS(s) => s.start_send_notify(v, &nref(), tid),
            H::MFS(s) => s.start_send_notify(v, &nref(), tid),
            _ => bad(format!("start_send on {}", kind)),
        });
        match r {
            Call::Done(Ok(AsyncSink::Ready)) => {
                self.log(th, o, OpK::StartSend, id, start, Res::Ready);
                (None, true)
            }
            Call::Done(Ok(AsyncSink::NotReady(p))) => {
                if p.serial() != serial {
                    self.hfault(HFault::NotReadyReturnedOtherInstance);
                }
                self.log(th, o, OpK::StartSend, id, start, Res::NotReadyMsg(p.id));
                (Some(p), true)
            }
            Call::Done(Err(e)) => {
                let p = e.0;
                self.log(th, o, OpK::StartSend, id, start, Res::SinkErr(p.id));
                (None, true)
            }
            Call::Panicked(m) => {
                self.log(th, o, OpK::StartSend, id, start, Res::Panic(m));
                (None, false)
            }
        }
    }

    fn poll_complete(&self, th: u8, o: &Op) -> bool {
        let mut g = self.slots[o.h as usize].lk();
        let h = g.as_mut().unwrap_or_else(|| bad(format!("poll_complete on empty slot {}", o.h)));
        let kind = h.kind();
        let tid = rt::task_id_for(true, o.h);
        let start = rt::op_begin();
        let r = guarded(|| match h {
            H::BFS(s) => s.poll_flush_notify(&nref(), tid).map_err(|_| ()),
            H::MFS(s) => s.poll_flush_notify(&nref(), tid).map_err(|_| ()),
            _ => bad(format!("poll_complete on {}", kind)),
        });
        let (res, ok) = match r {
            Call::Done(Ok(Async::Ready(()))) => (Res::Ready, true),
            Call::Done(Ok(Async::NotReady)) => (Res::NotReady, true),
            Call::Done(Err(())) => (Res::SinkErr(0), true),
            Call::Panicked(m) => (Res::Panic(m), false),
        };
        self.log(th, o, OpK::PollComplete, 0, start, res);
        ok
    }

    fn recv_like(&self, th: u8, o: &Op, k: OpK) -> (Res, bool) {
        let mut g = self.slots[o.h as usize].lk();
        let h = g.as_mut().unwrap_or_else(|| bad(format!("receive on empty slot {}", o.h)));
        let kind = h.kind();
        let tid = rt::task_id_for(false, o.h);
        let start = rt::op_begin();
        fn tr(r: Result<P, TryRecvError>) -> Res {
            match r {
                Ok(p) => Res::Val(p.delivered()),
                Err(TryRecvError::Empty) => Res::Empty,
                Err(TryRecvError::Disconnected) => Res::End,
            }
        }
        fn tri(r: Result<u32, TryRecvError>) -> Res {
            match r {
                Ok(p) => Res::Val(p),
                Err(TryRecvError::Empty) => Res::Empty,
                Err(TryRecvError::Disconnected) => Res::End,
            }
        }
        fn rr<E>(r: Result<P, E>) -> Res {
            match r {
                Ok(p) => Res::Val(p.delivered()),
                Err(_) => Res::End,
            }
        }
        fn rri<E>(r: Result<u32, E>) -> Res {
            match r {
                Ok(p) => Res::Val(p),
                Err(_) => Res::End,
            }
        }
        fn pl(r: Result<Async<Option<P>>, ()>) -> Res {
            match r {
                Ok(Async::Ready(Some(p))) => Res::Val(p.delivered()),
                Ok(Async::Ready(None)) => Res::End,
                Ok(Async::NotReady) => Res::NotReady,
                Err(()) => Res::SinkErr(0),
            }
        }
        fn pli(r: Result<Async<Option<u32>>, ()>) -> Res {
            match r {
                Ok(Async::Ready(Some(p))) => Res::Val(p),
                Ok(Async::Ready(None)) => Res::End,
                Ok(Async::NotReady) => Res::NotReady,
                Err(()) => Res::SinkErr(0),
            }
        }
        let r = guarded(|| match (k, h) {
            (OpK::TryRecv, H::BR(r)) => tr(r.try_recv()),
            (OpK::TryRecv, H::BU(r)) => tr(r.try_recv()),
            (OpK::TryRecv, H::MR(r)) => tr(r.try_recv()),
            (OpK::TryRecv, H::MU(r)) => tr(r.try_recv()),
            (OpK::TryRecv, H::BFR(r)) => tr(r.get_ref().try_recv()),
            (OpK::TryRecv, H::MFR(r)) => tr(r.get_ref().try_recv()),
            (OpK::TryRecv, H::BFU(r)) => tri(r.get_mut().try_recv()),
            (OpK::TryRecv, H::MFU(r)) => tri(r.get_mut().try_recv()),
            (OpK::Recv, H::BR(r)) => rr(r.recv()),
            (OpK::Recv, H::BU(r)) => rr(r.recv()),
            (OpK::Recv, H::MR(r)) => rr(r.recv()),
            (OpK::Recv, H::MU(r)) => rr(r.recv()),
            (OpK::Recv, H::BFR(r)) => rr(r.get_ref().recv()),
            (OpK::Recv, H::MFR(r)) => rr(r.get_ref().recv()),
            (OpK::Recv, H::BFU(r)) => rri(r.get_mut().recv()),
            (OpK::Recv, H::MFU(r)) => rri(r.get_mut().recv()),
            (OpK::TryRecvView, H::BU(r)) => tri(r.try_recv_view(view_fn).map_err(|e| e.1)),
            (OpK::TryRecvView, H::MU(r)) => tri(r.try_recv_view(view_fn).map_err(|e| e.1)),
            (OpK::RecvView, H::BU(r)) => rri(r.recv_view(view_fn)),
            (OpK::RecvView, H::MU(r)) => rri(r.recv_view(view_fn)),
            (OpK::PollS, H::BFR(r)) => pl(r.poll_stream_notify(&nref(), tid)),
            (OpK::PollS, H::MFR(r)) => pl(r.poll_stream_notify(&nref(), tid)),
            (OpK::PollS, H::BFU(r)) => pli(r.poll_stream_notify(&nref(), tid)),
            (OpK::PollS, H::MFU(r)) => pli(r.poll_stream_notify(&nref(), tid)),
            _ => bad(format!("{:?} on {}", k, kind)),
        });
        let (res, ok) = match r {
            Call::Done(r) => (r, true),
            Call::Panicked(m) => (Res::Panic(m), false),
        };
        self.log(th, o, k, 0, start, res.clone());
        (res, ok)
    }

    /// try_iter / try_iter_with: drain until the iterator ends.
    /// into_iter / iter_with: consume the handle, iterate to the end.
    fn iter_like(&self, th: u8, o: &Op) -> bool {
        let consuming = matches!(o.k, OpK::IterAll | OpK::IterWithAll);
        let mut g = self.slots[o.h as usize].lk();
        let kind = g.as_ref().unwrap_or_else(|| bad(format!("iter on empty slot {}", o.h))).kind();
        // one event per next()
        macro_rules! drive {
            ($it:expr, $map:expr) => {{
                let mut it = $it;
                loop {
                    let start = rt::op_begin();
                    let r = guarded(|| it.next());
                    match r {
                        Call::Done(Some(x)) => {
                            let id: u32 = $map(x);
                            self.log(th, o, OpK::IterNext, 0, start, Res::Val(id));
                        }
                        Call::Done(None) => {
                            let r = if o.k == OpK::TryIterE { Res::Empty } else { Res::End };
                            self.log(th, o, OpK::IterNext, 0, start, r);
                            break true;
                        }
                        Call::Panicked(m) => {
                            self.log(th, o, OpK::IterNext, 0, start, Res::Panic(m));
                            break false;
                        }
                    }
                }
            }};
        }
        let pv = |p: P| p.delivered();
        let iv = |i: u32| i;
        if !consuming {
            let h = g.as_ref().unwrap();
            match (o.k, h) {
                (OpK::TryIter, H::BR(r)) => drive!(r.try_iter(), pv),
                (OpK::TryIter, H::MR(r)) => drive!(r.try_iter(), pv),
                (OpK::TryIterE, H::BR(r)) => drive!(r.try_iter(), pv),
                (OpK::TryIterE, H::MR(r)) => drive!(r.try_iter(), pv),
                (OpK::TryIter, H::BU(r)) => drive!(r.into_iter(), pv),
                (OpK::TryIter, H::MU(r)) => drive!(r.into_iter(), pv),
                (OpK::TryIterWith, H::BU(r)) => drive!(r.try_iter_with(view_fn), iv),
                (OpK::TryIterWith, H::MU(r)) => drive!(r.try_iter_with(view_fn), iv),
                _ => bad(format!("{:?} on {}", o.k, kind)),
            }
        } else {
            let h = g.take().unwrap();
            match (o.k, h) {
                (OpK::IterAll, H::BR(r)) => drive!(r.into_iter(), pv),
                (OpK::IterAll, H::MR(r)) => drive!(r.into_iter(), pv),
                (OpK::IterAll, H::BU(r)) => drive!(r.into_iter(), pv),
                (OpK::IterAll, H::MU(r)) => drive!(r.into_iter(), pv),
                (OpK::IterWithAll, H::BU(r)) => drive!(r.iter_with(view_fn), iv),
                (OpK::IterWithAll, H::MU(r)) => drive!(r.iter_with(view_fn), iv),
                _ => bad(format!("{:?} on {}", o.k, kind)),
            }
        }
    }

    fn clone_h(&self, th: u8, o: &Op) -> bool {
        let g = self.slots[o.h as usize].lk();
        let h = g.as_ref().unwrap_or_else(|| bad(format!("clone of empty slot {}", o.h)));
        let kind = h.kind();
        let start = rt::op_begin();
        let r = guarded(|| match h {
            H::BS(s) => H::BS(s.clone()),
            H::MS(s) => H::MS(s.clone()),
            H::BR(s) => H::BR(s.clone()),
            H::MR(s) => H::MR(s.clone()),
            H::BFS(s) => H::BFS(executor::spawn(s.get_ref().clone())),
            H::MFS(s) => H::MFS(executor::spawn(s.get_ref().clone())),
            H::BFR(s) => H::BFR(executor::spawn(s.get_ref().clone())),
            H::MFR(s) => H::MFR(executor::spawn(s.get_ref().clone())),
            _ => bad(format!("clone of {}", kind)),
        });
        match r {
            Call::Done(n) => {
                {
                    let mut so = self.stream_of.lk();
                    so[o.dst as usize] = so[o.h as usize];
                }
                let mut d = self.slots[o.dst as usize].lk();
                if d.is_some() { bad(format!("clone into live slot {}", o.dst)); }
                *d = Some(n);
                drop(d);
                self.log(th, o, OpK::CloneH, o.dst as u32, start, Res::Unit);
                true
            }
            Call::Panicked(m) => {
                self.log(th, o, OpK::CloneH, o.dst as u32, start, Res::Panic(m));
                false
            }
        }
    }

    fn drop_h(&self, th: u8, o: &Op) -> bool {
        let h = self.slots[o.h as usize]
            .lock()
            .unwrap()
            .take()
            .unwrap_or_else(|| bad(format!("drop of empty slot {}", o.h)));
        let start = rt::op_begin();
        let r = guarded(move || drop(h));
        let (res, ok) = match r {
            Call::Done(()) => (Res::Unit, true),
            Call::Panicked(m) => (Res::Panic(m), false),
        };
        self.log(th, o, OpK::DropH, 0, start, res);
        ok
    }

    fn drop_in_task(&self, th: u8, o: &Op) -> bool {
        use futures::Future;
        let h = self.slots[o.h as usize]
            .lock()
            .unwrap()
            .take()
            .unwrap_or_else(|| bad(format!("drop of empty slot {}", o.h)));
        // the task whose context the drop runs in: the sink task of slot `dst`
        let id = rt::task_id_for(true, o.dst);
        let start = rt::op_begin();
        let r = guarded(move || {
            let mut cell = Some(h);
            let mut fut = futures::executor::spawn(futures::future::lazy(move || {
                drop(cell.take());
                Ok::<(), ()>(())
            }));
            let _ = fut.poll_future_notify(&nref(), id);
        });
        let (res, ok) = match r {
            Call::Done(()) => (Res::Unit, true),
            Call::Panicked(m) => (Res::Panic(m), false),
        };
        self.log(th, o, OpK::DropH, 0, start, res);
        ok
    }

    fn unsub(&self, th: u8, o: &Op) -> bool {
        let h = self.slots[o.h as usize]
            .lock()
            .unwrap()
            .take()
            .unwrap_or_else(|| bad(format!("unsubscribe of empty slot {}", o.h)));
        let start = rt::op_begin();
        let r = guarded(move || match h {
            H::BS(s) => {
                s.unsubscribe();
                Res::Unit
            }
            H::MS(s) => {
                s.unsubscribe();
                Res::Unit
            }
            H::BFS(s) => {
                s.into_inner().unsubscribe();
                Res::Unit
            }
            H::MFS(s) => {
                s.into_inner().unsubscribe();
                Res::Unit
            }
            H::BR(r) => Res::Bool(r.unsubscribe()),
            H::BU(r) => {
                r.unsubscribe();
                Res::Unit
            }
            H::MR(r) => Res::Bool(r.unsubscribe()),
            H::MU(r) => Res::Bool(r.unsubscribe()),
            H::BFR(r) => Res::Bool(r.into_inner().unsubscribe()),
            H::MFR(r) => Res::Bool(r.into_inner().unsubscribe()),
            H::BFU(r) => Res::Bool(r.into_inner().unsubscribe()),
            H::MFU(r) => Res::Bool(r.into_inner().unsubscribe()),
        });
        let (res, ok) = match r {
            Call::Done(r) => (r, true),
            Call::Panicked(m) => (Res::Panic(m), false),
        };
        self.log(th, o, OpK::Unsub, 0, start, res);
        ok
    }

    fn add_stream(&self, th: u8, o: &Op) -> bool {
        let g = self.slots[o.h as usize].lk();
        let h = g.as_ref().unwrap_or_else(|| bad(format!("add_stream on empty slot {}", o.h)));
        let kind = h.kind();
        let start = rt::op_begin();
        let r = guarded(|| match (o.k, h) {
            (OpK::AddStream, H::BR(r)) => H::BR(r.add_stream()),
            (OpK::AddStream, H::BFR(r)) => H::BFR(executor::spawn(r.get_ref().add_stream())),
            (OpK::AddStreamWith, H::BFU(r)) => {
                H::BFU(executor::spawn(r.get_ref().add_stream_with(view_fn as VF)))
            }
            (OpK::AddStreamWith, H::MFU(r)) => {
                H::MFU(executor::spawn(r.get_ref().add_stream_with(view_fn as VF)))
            }
            _ => bad(format!("{:?} on {}", o.k, kind)),
        });
        match r {
            Call::Done(n) => {
                self.stream_of.lk()[o.dst as usize] = o.dst;
                let mut d = self.slots[o.dst as usize].lk();
                if d.is_some() { bad(format!("add_stream into live slot {}", o.dst)); }
                *d = Some(n);
                drop(d);
                self.log(th, o, o.k, o.dst as u32, start, Res::Unit);
                true
            }
            Call::Panicked(m) => {
                self.log(th, o, o.k, o.dst as u32, start, Res::Panic(m));
                false
            }
        }
    }

    /// into_single / into_multi / transform_operation: in place.
    fn convert(&self, th: u8, o: &Op) -> bool {
        let mut g = self.slots[o.h as usize].lk();
        let h = g.take().unwrap_or_else(|| bad(format!("convert on empty slot {}", o.h)));
        let kind = h.kind();
        let start = rt::op_begin();
        let k = o.k;
        let r = guarded(move || match (k, h) {
            (OpK::IntoSingle, H::BR(r)) => match r.into_single() {
                Ok(u) => (H::BU(u), Res::Converted(true)),
                Err(r) => (H::BR(r), Res::Converted(false)),
            },
            (OpK::IntoSingle, H::MR(r)) => match r.into_single() {
                Ok(u) => (H::MU(u), Res::Converted(true)),
                Err(r) => (H::MR(r), Res::Converted(false)),
            },
            (OpK::IntoSingle, H::BFR(r)) => match r.into_inner().into_single(view_fn as VF) {
                Ok(u) => (H::BFU(executor::spawn(u)), Res::Converted(true)),
                Err((_, r)) => (H::BFR(executor::spawn(r)), Res::Converted(false)),
            },
            (OpK::IntoSingle, H::MFR(r)) => match r.into_inner().into_single(view_fn as VF) {
                Ok(u) => (H::MFU(executor::spawn(u)), Res::Converted(true)),
                Err((_, r)) => (H::MFR(executor::spawn(r)), Res::Converted(false)),
            },
            (OpK::IntoMulti, H::BU(r)) => (H::BR(r.into_multi()), Res::Unit),
            (OpK::IntoMulti, H::MU(r)) => (H::MR(r.into_multi()), Res::Unit),
            (OpK::IntoMulti, H::BFU(r)) => (
                H::BFR(executor::spawn(r.into_inner().into_multi())),
                Res::Unit,
            ),
            (OpK::IntoMulti, H::MFU(r)) => (
                H::MFR(executor::spawn(r.into_inner().into_multi())),
                Res::Unit,
            ),
            (OpK::Transform, H::BFU(r)) => (
                H::BFU(executor::spawn(
                    r.into_inner().transform_operation(view_fn as VF),
                )),
                Res::Unit,
            ),
            (OpK::Transform, H::MFU(r)) => (
                H::MFU(executor::spawn(
                    r.into_inner().transform_operation(view_fn as VF),
                )),
                Res::Unit,
            ),
            (k, _) => bad(format!("{:?} on {}", k, kind)),
        });
        match r {
            Call::Done((n, res)) => {
                *g = Some(n);
                drop(g);
                self.log(th, o, o.k, 0, start, res);
                true
            }
            Call::Panicked(m) => {
                drop(g);
                self.log(th, o, o.k, 0, start, Res::Panic(m));
                false
            }
        }
    }
}
