//! Scenario description and the driver that runs one execution of it.

use crate::ops::*;
use crate::payload::{ledger_report, ledger_reset, LedgerReport};
use crate::rt::{self, ExecOpts, ExecRecord, MemReport, Status};
use crate::valloc::{self, tracked};
use std::sync::Arc;

#[derive(Clone, Copy, Debug, PartialEq, Eq)]
pub enum Post {
    /// fill-to-Full probe with the surviving senders, then drain every stream
    Quiesce,
    /// drop senders, drain every stream
    Drain,
    /// only tear down
    None,
}

#[derive(Clone, Debug)]
pub struct Scn {
    pub name: String,
    pub cfg: QCfg,
    pub prefix: Vec<Op>,
    pub threads: Vec<Vec<Op>>,
    pub post: Post,
    /// scheduling points inside Clone::clone / view closures
    pub slow: u32,
    pub solo: Option<usize>,
    /// property a hang / livelock in this scenario is charged to
    pub hang_prop: &'static str,
    pub horizon: u64,
    /// tags of the properties whose oracles are meaningful here
    pub tags: &'static [&'static str],
    /// deviations allowed at yield / spin-marker points on top of the bound
    pub extra_yield: u32,
    /// weak compare-and-swap operations that would succeed may fail
    /// spuriously (one deviation each)
    pub spurious: bool,
    /// after the explored phase: two rounds of 16 add_stream+drop cycles with
    /// the fixed handles operating; the number of live crate blocks after the
    /// second round must not exceed the first by more than one batch (C17:
    /// the reclamation manager still works after whatever the threads did)
    pub growth_probe: bool,
    /// a hang in which only futures tasks are parked is judged by a probe: a
    /// try_send on this (spare) sender handle from the main thread. Accepted =
    /// the queue had room and the parked sink was not told; refused = the
    /// queue really is full (e.g. an idle stream holds the values) and the
    /// parked sender is not a violation
    pub hang_probe: Option<u8>,
}

impl Scn {
    pub fn new(name: &str, cfg: QCfg) -> Scn {
        Scn {
            name: format!("{}/{}", name, cfg.label()),
            cfg,
            prefix: vec![],
            threads: vec![],
            post: Post::Quiesce,
            slow: 0,
            solo: None,
            hang_prop: "C08",
            horizon: 20_000,
            tags: &[],
            extra_yield: 0,
            spurious: std::env::var("MQV_NO_SPURIOUS").is_err(),
            growth_probe: false,
            hang_probe: None,
        }
    }
}

pub struct Outcome {
    pub rec: ExecRecord,
    pub hist: Vec<Ev>,
    pub ledger: LedgerReport,
    pub mem: MemReport,
    pub hfaults: Vec<HFault>,
    pub cur_ops: [Option<(Op, u64)>; 9],
    pub t_start: u64,
    pub t_join: u64,
    pub post_done: bool,
    pub teardown_done: bool,
    pub prefix_problem: Option<String>,
    pub post_problem: Option<String>,
    pub live_delta: (isize, isize),
    pub n: u64,
    /// live crate blocks after each round of the growth probe
    pub growth: Option<(usize, usize)>,
}

fn receiver_slots(ctx: &Ctx) -> Vec<u8> {
    (0..NSLOTS as u8)
        .filter(|&i| {
            ctx.slots[i as usize]
                .lk()
                .as_ref()
                .map(|h| !h.is_sender())
                .unwrap_or(false)
        })
        .collect()
}

fn sender_slots(ctx: &Ctx) -> Vec<u8> {
    (0..NSLOTS as u8)
        .filter(|&i| {
            ctx.slots[i as usize]
                .lk()
                .as_ref()
                .map(|h| h.is_sender())
                .unwrap_or(false)
        })
        .collect()
}

pub const PROBE_BASE: u32 = 9000;
pub const HANG_PROBE_VAL: u32 = 9998;

fn post_phase(ctx: &Ctx, scn: &Scn, n_accepted_hint: usize) {
    let n = scn.cfg.n() as usize;
    if scn.post == Post::Quiesce {
        if let Some(&s) = sender_slots(ctx).first() {
            for i in 0..(n + 2) {
                let o = opv(OpK::TrySend, s, PROBE_BASE + i as u32);
                ctx.exec(MAIN, &o);
                let last_ok = matches!(ctx.hist.lk().last().map(|e| e.res.clone()), Some(Res::Ok));
                if !last_ok {
                    break;
                }
            }
        }
    }
    for s in sender_slots(ctx) {
        ctx.exec(MAIN, &op(OpK::DropH, s));
    }
    if scn.post != Post::None {
        // one handle per stream drains it
        let mut seen: Vec<u8> = Vec::new();
        for r in receiver_slots(ctx) {
            let st = ctx.stream_of.lk()[r as usize];
            if seen.contains(&st) {
                continue;
            }
            seen.push(st);
            for _ in 0..(n_accepted_hint + 2 * n + 4) {
                ctx.exec(MAIN, &op(OpK::TryRecv, r));
                match ctx.hist.lk().last().map(|e| e.res.clone()) {
                    Some(Res::Val(_)) => {}
                    _ => break,
                }
            }
        }
    }
}

fn teardown(ctx: &Ctx) {
    for i in 0..NSLOTS as u8 {
        if ctx.slot_live(i) {
            // receivers leave through unsubscribe(): same effect as a drop, and
            // the answer ("was I the last of my stream?") is checked by C11
            let sender = ctx.slot_kind(i).map(|k| k.contains("Sender")).unwrap_or(false);
            ctx.exec(MAIN, &op(if sender { OpK::DropH } else { OpK::Unsub }, i));
        }
    }
}

/// Forget whatever is left in the slots (after an abandoned execution whose
/// handles may be in an inconsistent state it is still safe to drop them:
/// the allocator quarantine keeps every block alive until exec_end).
pub fn run_one(scn: &Scn, opts: &ExecOpts) -> Outcome {
    rt::exec_begin();
    ledger_reset(scn.slow);
    let live0 = valloc::live();
    let ctx = Arc::new(Ctx::new(scn.cfg));
    let mut prefix_problem = None;
    rt::set_seq_horizon(200_000);
    {
        let c = ctx.clone();
        let pre = scn.prefix.clone();
        match rt::seq_call(move || {
            c.create();
            for o in &pre {
                if !c.exec(MAIN, o) {
                    return false;
                }
            }
            true
        }) {
            Ok(true) => {}
            Ok(false) => prefix_problem = Some("panic in prefix".to_string()),
            Err(None) => prefix_problem = Some("prefix blocked".to_string()),
            Err(Some(m)) => prefix_problem = Some(format!("prefix panicked: {}", m)),
        }
    }
    let t_start = rt::now();
    let mut bodies: Vec<rt::Body> = Vec::new();
    if prefix_problem.is_none() {
        for (i, ops) in scn.threads.iter().enumerate() {
            let c = ctx.clone();
            let ops = ops.clone();
            bodies.push(Box::new(move || {
                for o in &ops {
                    if !c.exec(i as u8, o) {
                        break;
                    }
                }
            }));
        }
    }
    let rec = if bodies.is_empty() {
        ExecRecord {
            status: Status::Complete,
            choices: vec![],
            steps: 0,
            trace_hash: 0,
            trace: vec![],
            panics: vec![],
            switches: 0,
            cas_weak_points: 0,
            runaway: false,
        }
    } else {
        rt::run_threads(bodies, opts)
    };
    let t_join = rt::now();
    if let (Status::Hang(list), Some(slot)) = (&rec.status, scn.hang_probe) {
        if !rec.runaway && list.iter().all(|(_, b)| matches!(b, rt::Block::Park)) && ctx.slot_live(slot) {
            let c = ctx.clone();
            let _ = rt::seq_call(move || c.exec(MAIN, &opv(OpK::TrySend, slot, HANG_PROBE_VAL)));
        }
    }
    if rec.runaway {
        // threads of this execution are still running inside the crate: keep
        // everything alive (no destructor, no release of the quarantine); the
        // caller reports what it has and ends the process
        let hist = ctx.hist.lk().clone();
        let hfaults = ctx.hfaults.lk().clone();
        let cur_ops = *ctx.cur_op.lk();
        std::mem::forget(ctx);
        return Outcome {
            rec,
            hist,
            ledger: ledger_report(),
            mem: MemReport {
                faults: vec![],
                crate_live_blocks: 0,
                crate_live_bytes: 0,
                sleeps_total: 0,
            },
            hfaults,
            cur_ops,
            t_start,
            t_join,
            post_done: false,
            teardown_done: false,
            prefix_problem,
            post_problem: None,
            live_delta: (0, 0),
            n: scn.cfg.n(),
            growth: None,
        };
    }
    let mut post_done = false;
    let mut post_problem = None;
    let clean = rec.status == Status::Complete
        && rec.panics.is_empty()
        && prefix_problem.is_none()
        && !ctx
            .hist
            .lk()
            .iter()
            .any(|e| matches!(e.res, Res::Panic(_)));
    if clean {
        let c = ctx.clone();
        let s2 = scn.clone();
        let acc = ctx
            .hist
            .lk()
            .iter()
            .filter(|e| matches!(e.res, Res::Ok | Res::Ready))
            .count();
        match rt::seq_call(move || post_phase(&c, &s2, acc)) {
            Ok(()) => post_done = true,
            Err(None) => post_problem = Some("post phase blocked".to_string()),
            Err(Some(m)) => post_problem = Some(format!("post phase panicked: {}", m)),
        }
    }
    let mut growth = None;
    if clean && post_done && scn.growth_probe && scn.cfg.fl == Flavour::B {
        // the senders are gone by now (post phase); every receiver handle that is
        // left keeps operating, one of them churns streams
        let rs = receiver_slots(&ctx);
        if let Some(&r0) = rs.first() {
            let c = ctx.clone();
            let r = rt::seq_call(move || {
                let mut marks = [0usize; 2];
                for round in 0..2 {
                    for _ in 0..16 {
                        c.exec(MAIN, &opd(OpK::AddStream, r0, 22));
                        c.exec(MAIN, &op(OpK::DropH, 22));
                        for &r in &rs {
                            c.exec(MAIN, &op(OpK::TryRecv, r));
                        }
                    }
                    marks[round] = rt::crate_live().0;
                }
                (marks[0], marks[1])
            });
            if let Ok(m) = r {
                growth = Some(m);
            }
        }
    }
    let mut teardown_done = false;
    {
        let c = ctx.clone();
        if let Ok(()) = rt::seq_call(move || teardown(&c)) {
            teardown_done = true;
        }
    }
    let hist = std::mem::take(&mut *ctx.hist.lk());
    let hfaults = std::mem::take(&mut *ctx.hfaults.lk());
    let cur_ops = *ctx.cur_op.lk();
    // whatever is still in the table (teardown abandoned) goes now
    let _ = rt::seq_call(|| tracked(|| drop(ctx)));
    let ledger = ledger_report();
    let live1 = valloc::live();
    let mem = rt::exec_end();
    Outcome {
        rec,
        hist,
        ledger,
        mem,
        hfaults,
        cur_ops,
        t_start,
        t_join,
        post_done,
        teardown_done,
        prefix_problem,
        post_problem,
        live_delta: (live1.0 - live0.0, live1.1 - live0.1),
        n: scn.cfg.n(),
        growth,
    }
}
