//! Global allocator of the harness binary.
//!
//! * every block carries a small header saying whether it was allocated in a
//!   *tracked* context (inside a call into the crate under test), so a live
//!   byte/block count of "memory the queue allocated" is exact wherever the
//!   block is freed;
//! * while an execution is active, frees issued from tracked/managed contexts
//!   are *deferred* (quarantined) until the execution is over, so a stale
//!   pointer in the code under test reads intact memory and the process never
//!   crashes; the logical use-after-free is caught by the runtime's freed set.

use std::alloc::{GlobalAlloc, Layout, System};
use std::cell::Cell;
use std::sync::atomic::{AtomicBool, AtomicIsize, AtomicUsize, Ordering::*};

pub struct VAlloc;

const MAGIC_TRACKED: u64 = 0x4d51_5645_5249_4601;
const MAGIC_PLAIN: u64 = 0x4d51_5645_5249_4600;
const MAGIC_FREED: u64 = 0x4d51_5645_5249_46ff;
pub static DOUBLE_FREES: AtomicUsize = AtomicUsize::new(0);

thread_local! {
    /// >0: allocations on this thread are attributed to the code under test
    static TRACK: Cell<u32> = const { Cell::new(0) };
    /// true: frees on this thread are deferred while DEFER_ON
    static DEFER_THREAD: Cell<bool> = const { Cell::new(false) };
}

static DEFER_ON: AtomicBool = AtomicBool::new(false);
pub static LIVE_BYTES: AtomicIsize = AtomicIsize::new(0);
pub static LIVE_BLOCKS: AtomicIsize = AtomicIsize::new(0);
pub static DEFER_OVERFLOW: AtomicUsize = AtomicUsize::new(0);

const QCAP: usize = 1 << 16;
static QLOCK: AtomicBool = AtomicBool::new(false);
static QLEN: AtomicUsize = AtomicUsize::new(0);
static mut QBUF: [(usize, usize, usize); QCAP] = [(0, 0, 0); QCAP];

#[inline]
fn hdr(align: usize) -> usize {
    if align > 16 {
        align
    } else {
        16
    }
}

fn qlock() {
    while QLOCK
        .compare_exchange_weak(false, true, Acquire, Relaxed)
        .is_err()
    {
        std::hint::spin_loop();
    }
}
fn qunlock() {
    QLOCK.store(false, Release);
}

unsafe impl GlobalAlloc for VAlloc {
    unsafe fn alloc(&self, l: Layout) -> *mut u8 {
        let h = hdr(l.align());
        let total = Layout::from_size_align_unchecked(l.size() + h, h.max(l.align()));
        let p = System.alloc(total);
        if p.is_null() {
            return p;
        }
        let tracked = TRACK.try_with(|t| t.get() > 0).unwrap_or(false);
        let hp = p.add(h - 16) as *mut u64;
        if tracked {
            *hp = MAGIC_TRACKED;
            LIVE_BYTES.fetch_add(l.size() as isize, Relaxed);
            LIVE_BLOCKS.fetch_add(1, Relaxed);
        } else {
            *hp = MAGIC_PLAIN;
        }
        *hp.add(1) = l.size() as u64;
        p.add(h)
    }

    unsafe fn dealloc(&self, ptr: *mut u8, l: Layout) {
        let h = hdr(l.align());
        let base = ptr.sub(h);
        let hp = ptr.sub(16) as *mut u64;
        if *hp == MAGIC_FREED {
            // freed before and still in quarantine: a double free by the code
            // under test (e.g. a bookkeeping object destroyed twice). Swallow it
            // - the block goes back once - and report it.
            DOUBLE_FREES.fetch_add(1, Relaxed);
            return;
        }
        if *hp == MAGIC_TRACKED {
            LIVE_BYTES.fetch_sub(l.size() as isize, Relaxed);
            LIVE_BLOCKS.fetch_sub(1, Relaxed);
        }
        let deferring = DEFER_ON.load(Relaxed) && DEFER_THREAD.try_with(|d| d.get()).unwrap_or(false);
        *hp = if deferring { MAGIC_FREED } else { MAGIC_PLAIN };
        let total = l.size() + h;
        let align = h.max(l.align());
        if deferring {
            qlock();
            let n = QLEN.load(Relaxed);
            if n < QCAP {
                (*std::ptr::addr_of_mut!(QBUF))[n] = (base as usize, total, align);
                QLEN.store(n + 1, Relaxed);
                qunlock();
                return;
            }
            qunlock();
            DEFER_OVERFLOW.fetch_add(1, Relaxed);
        }
        System.dealloc(base, Layout::from_size_align_unchecked(total, align));
    }
}

/// Attribute allocations made inside `f` on this thread to the code under test.
pub fn tracked<R>(f: impl FnOnce() -> R) -> R {
    struct G;
    impl Drop for G {
        fn drop(&mut self) {
            let _ = TRACK.try_with(|t| t.set(t.get() - 1));
        }
    }
    TRACK.with(|t| t.set(t.get() + 1));
    let _g = G;
    f()
}

/// Harness bookkeeping executed inside a tracked region (payload ledger,
/// runtime callbacks) is not attributed to the code under test.
pub struct Untrack(u32);
impl Untrack {
    #[inline]
    pub fn new() -> Untrack {
        Untrack(TRACK.try_with(|t| t.replace(0)).unwrap_or(0))
    }
}
impl Drop for Untrack {
    #[inline]
    fn drop(&mut self) {
        let _ = TRACK.try_with(|t| t.set(self.0));
    }
}

pub fn set_defer_thread(on: bool) {
    DEFER_THREAD.with(|d| d.set(on));
}

pub fn defer_begin() {
    DEFER_ON.store(true, SeqCst);
}

/// Ends the quarantine: really frees everything deferred so far.
pub fn defer_end() {
    DEFER_ON.store(false, SeqCst);
    loop {
        qlock();
        let n = QLEN.load(Relaxed);
        if n == 0 {
            qunlock();
            break;
        }
        let e = unsafe { (*std::ptr::addr_of_mut!(QBUF))[n - 1] };
        QLEN.store(n - 1, Relaxed);
        qunlock();
        unsafe {
            System.dealloc(
                e.0 as *mut u8,
                Layout::from_size_align_unchecked(e.1, e.2),
            )
        };
    }
}

pub fn take_double_frees() -> usize {
    DOUBLE_FREES.swap(0, SeqCst)
}

pub fn live() -> (isize, isize) {
    (LIVE_BYTES.load(SeqCst), LIVE_BLOCKS.load(SeqCst))
}
