//! Scenario catalogue: which executions are enumerated for which property.

use crate::explore::UNBOUNDED;
use crate::ops::OpK::*;
use crate::ops::*;
use crate::scenario::*;

#[derive(Clone, Copy, PartialEq, Eq, Debug)]
pub enum Tier {
    Quick,
    Thorough,
}

pub struct Task {
    pub scn: Scn,
    pub c: u32,
    pub shards: usize,
    pub cap: u64,
}

fn task(scn: Scn, c: u32) -> Task {
    Task {
        scn,
        c,
        shards: 1,
        cap: 3_000_000,
    }
}
fn task_sh(scn: Scn, c: u32, shards: usize) -> Task {
    Task {
        scn,
        c,
        shards,
        cap: 40_000_000,
    }
}

pub fn q(fl: Flavour, cap: u64, wait: WaitK) -> QCfg {
    QCfg {
        fl,
        fut: false,
        cap,
        wait,
        spins: None,
    }
}
pub fn qf(fl: Flavour, cap: u64, spins: (usize, usize)) -> QCfg {
    QCfg {
        fl,
        fut: true,
        cap,
        wait: WaitK::Busy,
        spins: if fl == Flavour::M { None } else { Some(spins) },
    }
}

const S0: u8 = 0;
const R0: u8 = 1;
const S1: u8 = 2;
const S2: u8 = 3;
const R1: u8 = 4;
const R2: u8 = 5;
const R3: u8 = 6;
const R4: u8 = 7;

#[derive(Clone, Copy, PartialEq, Eq, Debug)]
pub enum St {
    Empty,
    One,
    Full,
    Wrapped,
    WrappedOne,
    WrappedFull,
    /// full, then one value consumed after the last refused send (stale cache)
    StaleCache,
}

/// Prefix that brings a fresh queue (receiver handles `rs` = one per stream)
/// into state `st`. ids start at 100.
fn prep(st: St, n: u64, rs: &[u8]) -> Vec<Op> {
    let mut v = Vec::new();
    let mut id = 100;
    let mut send = |v: &mut Vec<Op>, k: u64| {
        for _ in 0..k {
            v.push(opv(TrySend, S0, id));
            id += 1;
        }
    };
    let recv_all = |v: &mut Vec<Op>, k: u64| {
        for r in rs {
            for _ in 0..k {
                v.push(op(TryRecv, *r));
            }
        }
    };
    match st {
        St::Empty => {}
        St::One => send(&mut v, 1),
        St::Full => send(&mut v, n),
        St::Wrapped => {
            send(&mut v, n);
            recv_all(&mut v, n);
        }
        St::WrappedOne => {
            send(&mut v, n);
            recv_all(&mut v, n);
            send(&mut v, 1);
        }
        St::WrappedFull => {
            send(&mut v, n);
            recv_all(&mut v, n);
            send(&mut v, n);
        }
        St::StaleCache => {
            send(&mut v, n + 1); // the last one is refused: cache says full
            recv_all(&mut v, 1);
        }
    }
    v
}

fn flavours() -> [Flavour; 2] {
    [Flavour::B, Flavour::M]
}

fn name(base: &str, extra: &str) -> String {
    format!("{}[{}]", base, extra)
}

/// Two single calls from prepared states: every interleaving.
pub fn pair_scenarios(ns: &[u64], states: &[St], fut: bool, tags: &'static [&'static str]) -> Vec<Scn> {
    let mut out = Vec::new();
    for fl in flavours() {
        for &n in ns {
            let cfg = if fut {
                if fl == Flavour::M {
                    continue; // default spins only: too long for all-interleavings
                }
                qf(fl, n, (0, 0))
            } else {
                q(fl, n, WaitK::Busy)
            };
            for &st in states {
                let stn = format!("{:?}", st);
                // send || recv
                let mut s = Scn::new(&name("pair-send-recv", &stn), cfg);
                s.prefix = prep(st, n, &[R0]);
                s.threads = vec![vec![opv(TrySend, S0, 1)], vec![op(TryRecv, R0)]];
                s.tags = tags;
                out.push(s);
                // send || send (two sender handles)
                let mut s = Scn::new(&name("pair-send-send", &stn), cfg);
                s.prefix = prep(st, n, &[R0]);
                s.prefix.insert(0, opd(CloneH, S0, S1));
                s.threads = vec![vec![opv(TrySend, S0, 1)], vec![opv(TrySend, S1, 11)]];
                s.tags = tags;
                out.push(s);
                // recv || recv, same stream
                let mut s = Scn::new(&name("pair-recv-recv-shared", &stn), cfg);
                s.prefix = prep(st, n, &[R0]);
                s.prefix.push(opd(CloneH, R0, R1));
                s.threads = vec![vec![op(TryRecv, R0)], vec![op(TryRecv, R1)]];
                s.tags = tags;
                out.push(s);
                if fl == Flavour::B {
                    // recv || recv, two streams
                    let mut s = Scn::new(&name("pair-recv-recv-2streams", &stn), cfg);
                    s.prefix = vec![opd(AddStream, R0, R1)];
                    s.prefix.extend(prep(st, n, &[R0, R1]));
                    s.threads = vec![vec![op(TryRecv, R0)], vec![op(TryRecv, R1)]];
                    s.tags = tags;
                    out.push(s);
                }
                if !fut {
                    // view || send
                    let mut s = Scn::new(&name("pair-view-send", &stn), cfg);
                    s.prefix = prep(st, n, &[R0]);
                    s.prefix.push(op(IntoSingle, R0));
                    s.threads = vec![vec![opv(TrySend, S0, 1)], vec![op(TryRecvView, R0)]];
                    s.tags = tags;
                    out.push(s);
                } else {
                    // sink/stream single calls
                    let mut s = Scn::new(&name("pair-startsend-poll", &stn), cfg);
                    s.prefix = prep(st, n, &[R0]);
                    s.threads = vec![vec![opv(StartSend, S0, 1)], vec![op(PollS, R0)]];
                    s.tags = tags;
                    out.push(s);
                }
            }
        }
    }
    out
}

/// Three-thread traffic scenarios.
pub fn trio_scenarios(ns: &[u64], fut: bool, tags: &'static [&'static str]) -> Vec<Scn> {
    let mut out = Vec::new();
    for fl in flavours() {
        for &n in ns {
            let cfg = if fut {
                if fl == Flavour::M {
                    continue;
                }
                qf(fl, n, (0, 0))
            } else {
                q(fl, n, WaitK::Busy)
            };
            let (snd, rcv): (OpK, OpK) = if fut { (StartSend, PollS) } else { (TrySend, TryRecv) };
            // 1 producer x2, 2 consumers of one stream x2
            let mut s = Scn::new("trio-1p-2c-shared", cfg);
            s.prefix = vec![opd(CloneH, R0, R1)];
            s.threads = vec![
                vec![opv(snd, S0, 1), opv(snd, S0, 2)],
                vec![op(rcv, R0), op(rcv, R0)],
                vec![op(rcv, R1), op(rcv, R1)],
            ];
            s.tags = tags;
            out.push(s);
            // 2 producers x2, 1 consumer x3
            let mut s = Scn::new("trio-2p-1c", cfg);
            s.prefix = vec![opd(CloneH, S0, S1)];
            s.threads = vec![
                vec![opv(snd, S0, 1), opv(snd, S0, 2)],
                vec![opv(snd, S1, 11), opv(snd, S1, 12)],
                vec![op(rcv, R0), op(rcv, R0), op(rcv, R0)],
            ];
            s.tags = tags;
            out.push(s);
            if fl == Flavour::B {
                // 1 producer x3, two streams x2 (second one single-consumer view when plain)
                let mut s = Scn::new("trio-1p-2streams", cfg);
                s.prefix = vec![opd(AddStream, R0, R1)];
                if !fut {
                    s.prefix.push(op(IntoSingle, R1));
                }
                s.threads = vec![
                    vec![opv(snd, S0, 1), opv(snd, S0, 2), opv(snd, S0, 3)],
                    vec![op(rcv, R0), op(rcv, R0)],
                    vec![
                        op(if fut { PollS } else { TryRecvView }, R1),
                        op(if fut { PollS } else { TryRecvView }, R1),
                    ],
                ];
                s.tags = tags;
                out.push(s);
            }
            // stale cache: full, one consumed; producer sends 2, consumer receives 2
            if !fut {
                let mut s = Scn::new("duo-stalecache", cfg);
                s.prefix = prep(St::StaleCache, n, &[R0]);
                s.threads = vec![
                    vec![opv(TrySend, S0, 1), opv(TrySend, S0, 2)],
                    vec![op(TryRecv, R0), op(TryRecv, R0)],
                ];
                s.tags = tags;
                out.push(s);
                let mut s = Scn::new("trio-stalecache-2p", cfg);
                s.prefix = vec![opd(CloneH, S0, S1)];
                s.prefix.extend(prep(St::StaleCache, n, &[R0]));
                s.threads = vec![
                    vec![opv(TrySend, S0, 1), opv(TrySend, S0, 2)],
                    vec![opv(TrySend, S1, 11), opv(TrySend, S1, 12)],
                    vec![op(TryRecv, R0), op(TryRecv, R0)],
                ];
                s.tags = tags;
                out.push(s);
            }
        }
    }
    out
}

pub fn quad_scenarios(ns: &[u64], tags: &'static [&'static str]) -> Vec<Scn> {
    let mut out = Vec::new();
    for fl in flavours() {
        for &n in ns {
            let cfg = q(fl, n, WaitK::Busy);
            let mut s = Scn::new("quad-2p-2c-shared", cfg);
            s.prefix = vec![opd(CloneH, S0, S1), opd(CloneH, R0, R1)];
            s.threads = vec![
                vec![opv(TrySend, S0, 1), opv(TrySend, S0, 2)],
                vec![opv(TrySend, S1, 11), opv(TrySend, S1, 12)],
                vec![op(TryRecv, R0), op(TryRecv, R0)],
                vec![op(TryRecv, R1), op(TryRecv, R1)],
            ];
            s.tags = tags;
            out.push(s);
            if fl == Flavour::B {
                let mut s = Scn::new("quad-2p-2streams", cfg);
                s.prefix = vec![opd(CloneH, S0, S1), opd(AddStream, R0, R1)];
                s.threads = vec![
                    vec![opv(TrySend, S0, 1), opv(TrySend, S0, 2)],
                    vec![opv(TrySend, S1, 11), opv(TrySend, S1, 12)],
                    vec![op(TryRecv, R0), op(TryRecv, R0)],
                    vec![op(TryRecv, R1), op(TryRecv, R1)],
                ];
                s.tags = tags;
                out.push(s);
            }
        }
    }
    out
}

/// C04: payload clone/view of arbitrary duration while the producer wraps.
pub fn c04_scenarios(ns: &[u64]) -> Vec<Scn> {
    let mut out = Vec::new();
    for &n in ns {
        let b = q(Flavour::B, n, WaitK::Busy);
        let m = q(Flavour::M, n, WaitK::Busy);
        // two consumers share a stream; ring full; producer keeps sending
        let mut s = Scn::new("c04-shared-clone-vs-wrap", b);
        s.prefix = prep(St::Full, n, &[R0]);
        s.prefix.push(opd(CloneH, R0, R1));
        s.threads = vec![
            vec![opv(TrySend, S0, 1), opv(TrySend, S0, 2), opv(TrySend, S0, 3)],
            vec![op(TryRecv, R0), op(TryRecv, R0)],
            vec![op(TryRecv, R1)],
        ];
        s.slow = 2;
        out.push(s);
        // a consumer of another stream lags
        let mut s = Scn::new("c04-other-stream-lags", b);
        s.prefix = vec![opd(AddStream, R0, R1)];
        s.prefix.extend(prep(St::Full, n, &[R0, R1]));
        s.threads = vec![
            vec![opv(TrySend, S0, 1), opv(TrySend, S0, 2)],
            vec![op(TryRecv, R0), op(TryRecv, R0)],
            vec![op(TryRecv, R1)],
        ];
        s.slow = 2;
        out.push(s);
        // single-consumer view while the producer wraps
        for cfg in [b, m] {
            let mut s = Scn::new("c04-view-vs-wrap", cfg);
            s.prefix = prep(St::Full, n, &[R0]);
            s.prefix.push(op(IntoSingle, R0));
            s.threads = vec![
                vec![opv(TrySend, S0, 1), opv(TrySend, S0, 2), opv(TrySend, S0, 3)],
                vec![op(TryRecvView, R0), op(TryRecvView, R0)],
            ];
            s.slow = 2;
            out.push(s);
            // sole consumer, non-view
            let mut s = Scn::new("c04-single-clone-vs-wrap", cfg);
            s.prefix = prep(St::Full, n, &[R0]);
            s.threads = vec![
                vec![opv(TrySend, S0, 1), opv(TrySend, S0, 2), opv(TrySend, S0, 3)],
                vec![op(TryRecv, R0), op(TryRecv, R0)],
            ];
            s.slow = 2;
            out.push(s);
        }
        // mpmc shared stream: speculative bitwise read
        let mut s = Scn::new("c04-mpmc-shared-speculative", m);
        s.prefix = prep(St::Full, n, &[R0]);
        s.prefix.push(opd(CloneH, R0, R1));
        s.threads = vec![
            vec![opv(TrySend, S0, 1), opv(TrySend, S0, 2)],
            vec![op(TryRecv, R0), op(TryRecv, R0)],
            vec![op(TryRecv, R1), op(TryRecv, R1)],
        ];
        s.slow = 1;
        out.push(s);
    }
    // two producers: the loser of the head CAS lands on the next slot, which a
    // consumer of a shared stream may still be cloning from
    for &n in ns {
        if n < 2 {
            continue;
        }
        let b = q(Flavour::B, n, WaitK::Busy);
        let mut s = Scn::new("c04-two-producers-vs-shared-clone", b);
        s.prefix = vec![opd(CloneH, S0, S1)];
        s.prefix.extend(prep(St::Full, n, &[R0]));
        s.prefix.extend((0..n - 1).map(|_| op(TryRecv, R0)));
        s.prefix.push(opd(CloneH, R0, R1));
        s.threads = vec![
            vec![op(TryRecv, R0)],
            vec![op(TryRecv, R1)],
            vec![opv(TrySend, S0, 1)],
            vec![opv(TrySend, S1, 11)],
        ];
        s.slow = 2;
        out.push(s);
    }
    // a consumer of a shared stream has to retry inside one call (its position
    // check fails) while the sibling and the producer, here one thread, move the
    // stream and the ring on around it; needs five alternations
    for &n in ns {
        if n > 2 {
            continue;
        }
        let b = q(Flavour::B, n, WaitK::Busy);
        let mut s = Scn::new("c04-retry-inside-one-call-vs-sibling-and-producer", b);
        s.prefix = prep(St::Full, n, &[R0]);
        s.prefix.push(opd(CloneH, R0, R1));
        s.threads = vec![
            vec![op(TryRecv, R0)],
            vec![op(TryRecv, R1), opv(TrySend, S0, 1), op(TryRecv, R1), opv(TrySend, S0, 2)],
        ];
        s.slow = 1;
        out.push(s);
    }
    for s in out.iter_mut() {
        s.tags = &["C04", "C05"];
        s.hang_prop = "C04";
    }
    out
}

/// C05: teardown races.
pub fn c05_scenarios(ns: &[u64]) -> Vec<Scn> {
    let mut out = Vec::new();
    for fl in flavours() {
        for &n in ns {
            let cfg = q(fl, n, WaitK::Busy);
            for st in [St::Empty, St::One, St::Wrapped] {
                let stn = format!("{:?}", st);
                // last receiver drop || in-flight sends
                let mut s = Scn::new(&name("c05-lastrecv-drop-vs-send", &stn), cfg);
                s.prefix = prep(st, n, &[R0]);
                s.threads = vec![
                    vec![opv(TrySend, S0, 1), opv(TrySend, S0, 2)],
                    vec![op(DropH, R0)],
                ];
                s.post = Post::None;
                out.push(s);
                // last sender drop || receives
                let mut s = Scn::new(&name("c05-lastsend-drop-vs-recv", &stn), cfg);
                s.prefix = prep(st, n, &[R0]);
                s.threads = vec![
                    vec![opv(TrySend, S0, 1), op(DropH, S0)],
                    vec![op(TryRecv, R0), op(TryRecv, R0), op(DropH, R0)],
                ];
                s.post = Post::None;
                out.push(s);
            }
            if fl == Flavour::B {
                // two streams dropped concurrently with values queued
                let mut s = Scn::new("c05-two-streams-dropped", cfg);
                s.prefix = vec![opd(AddStream, R0, R1)];
                s.prefix.extend(prep(St::Full, n, &[R0, R1]));
                s.threads = vec![
                    vec![op(TryRecv, R0), op(DropH, R0)],
                    vec![op(DropH, R1)],
                    vec![opv(TrySend, S0, 1), op(DropH, S0)],
                ];
                s.post = Post::None;
                out.push(s);
            }
            // two receivers of one stream: one drops, one consumes, sender sends
            let mut s = Scn::new("c05-shared-one-leaves", cfg);
            s.prefix = prep(St::One, n, &[R0]);
            s.prefix.push(opd(CloneH, R0, R1));
            s.threads = vec![
                vec![op(TryRecv, R0), op(DropH, R0)],
                vec![op(DropH, R1)],
                vec![opv(TrySend, S0, 1), op(DropH, S0)],
            ];
            s.post = Post::None;
            out.push(s);
        }
    }
    for s in out.iter_mut() {
        s.tags = &["C05"];
        s.hang_prop = "C05";
    }
    out
}

/// C07: the last sender's final sends and drop vs consumers.
pub fn c07_scenarios(ns: &[u64], thorough: bool) -> Vec<Scn> {
    let mut out = Vec::new();
    for fl in flavours() {
        for &n in ns {
            let cfg = q(fl, n, WaitK::Busy);
            for st in [St::Empty, St::One, St::Full, St::WrappedOne] {
                let stn = format!("{:?}", st);
                for rk in [TryRecv, Recv, TryRecvView] {
                    let mut s = Scn::new(&name(&format!("c07-send-drop-vs-{:?}", rk), &stn), cfg);
                    s.prefix = prep(st, n, &[R0]);
                    if rk == TryRecvView {
                        s.prefix.push(op(IntoSingle, R0));
                    }
                    s.threads = vec![
                        vec![opv(TrySend, S0, 1), op(DropH, S0)],
                        vec![op(rk, R0), op(rk, R0)],
                    ];
                    s.post = Post::Drain;
                    out.push(s);
                }
            }
            // two sender handles dropped in both orders while a consumer polls
            let mut s = Scn::new("c07-two-senders-drop", cfg);
            s.prefix = vec![opd(CloneH, S0, S1)];
            s.threads = vec![
                vec![opv(TrySend, S0, 1), op(DropH, S0)],
                vec![opv(TrySend, S1, 11), op(DropH, S1)],
                vec![op(TryRecv, R0), op(TryRecv, R0), op(TryRecv, R0)],
            ];
            s.post = Post::Drain;
            out.push(s);
            // producer sends 2 and drops; two consumers of one stream poll to the end
            let mut s = Scn::new("c07-shared-consumers-until-end", cfg);
            s.prefix = vec![opd(CloneH, R0, R1)];
            s.threads = vec![
                vec![opv(TrySend, S0, 1), opv(TrySend, S0, 2), op(DropH, S0)],
                vec![op(TryRecvAll, R0)],
                vec![op(TryRecvAll, R1)],
            ];
            s.post = Post::Drain;
            out.push(s);
            if thorough {
                let mut s = Scn::new("c07-shared-consumers-recv-until-end", q(fl, n, WaitK::Block(0, 0)));
                s.prefix = vec![opd(CloneH, R0, R1)];
                s.threads = vec![
                    vec![opv(TrySend, S0, 1), opv(TrySend, S0, 2), op(DropH, S0)],
                    vec![op(RecvAll, R0)],
                    vec![op(RecvAll, R1)],
                ];
                s.post = Post::Drain;
                out.push(s);
            }
        }
    }
    // blocked and parked consumers must see the end when the last two senders
    // leave at the same time
    for fl in flavours() {
        for w in [WaitK::Block(0, 0), WaitK::Busy] {
            let cfg = q(fl, 1, w);
            let mut s = Scn::new("c07-two-senders-leave-vs-blocked-recv", cfg);
            s.prefix = vec![opd(CloneH, S0, S1)];
            s.threads = vec![
                vec![opv(TrySend, S0, 1), op(DropH, S0)],
                vec![op(DropH, S1)],
                vec![op(RecvAll, R0)],
            ];
            s.post = Post::Drain;
            out.push(s);
        }
    }
    {
        let cfg = qf(Flavour::B, 1, (0, 0));
        let mut s = Scn::new("c07-two-senders-leave-vs-parked-stream", cfg);
        s.prefix = vec![opd(CloneH, S0, S1)];
        s.threads = vec![
            vec![opv(TrySend, S0, 1), op(DropH, S0)],
            vec![op(DropH, S1)],
            vec![op(StreamAll, R0)],
        ];
        s.post = Post::Drain;
        out.push(s);
    }
    {
        // the end must reach a parked stream that went through into_single/into_multi
        let cfg = qf(Flavour::B, 1, (0, 0));
        let mut s = Scn::new("c07-parked-stream-after-single-multi-roundtrip", cfg);
        s.prefix = vec![op(IntoSingle, R0), op(IntoMulti, R0)];
        s.threads = vec![
            vec![opv(TrySend, S0, 1), op(DropH, S0)],
            vec![op(StreamAll, R0)],
        ];
        s.post = Post::Drain;
        out.push(s);
    }
    // futures: poll vs last send + drop
    for &n in ns {
        let cfg = qf(Flavour::B, n, (0, 0));
        for st in [St::Empty, St::One] {
            let mut s = Scn::new(&name("c07-fut-send-drop-vs-poll", &format!("{:?}", st)), cfg);
            s.prefix = prep(st, n, &[R0]);
            s.threads = vec![
                vec![opv(TrySend, S0, 1), op(DropH, S0)],
                vec![op(PollS, R0), op(PollS, R0)],
            ];
            s.post = Post::Drain;
            out.push(s);
        }
    }
    for s in out.iter_mut() {
        s.tags = &["C07"];
        s.hang_prop = "C07";
    }
    out
}

/// C08: blocking receives under every wait strategy.
pub fn c08_scenarios(ns: &[u64], waits: &[WaitK]) -> Vec<Scn> {
    let mut out = Vec::new();
    for fl in flavours() {
        for &n in ns {
            for &w in waits {
                let cfg = q(fl, n, w);
                // one consumer, producer sends one then leaves
                let mut s = Scn::new("c08-recv-vs-send-drop", cfg);
                s.threads = vec![
                    vec![opv(TrySend, S0, 1), op(DropH, S0)],
                    vec![op(Recv, R0), op(Recv, R0)],
                ];
                out.push(s);
                if fl == Flavour::B && n == 1 {
                    // the consumer blocks while a reclamation cycle is pending
                    // (24 retirements, threshold 20): the send that wakes it is
                    // also the one that has to acknowledge the epoch
                    let mut s = Scn::new("c08-recv-vs-send-epoch-pending", cfg);
                    for _ in 0..6 {
                        s.prefix.push(opd(AddStream, R0, R4));
                        s.prefix.push(op(DropH, R4));
                    }
                    s.threads = vec![vec![opv(TrySend, S0, 1)], vec![op(Recv, R0)]];
                    out.push(s);
                    // the same with the cycle starting during the explored phase
                    let mut s = Scn::new("c08-recv-vs-send-vs-churn-crossing-threshold", cfg);
                    s.prefix = vec![opd(CloneH, R0, R1)];
                    for _ in 0..5 {
                        s.prefix.push(opd(AddStream, R0, R4));
                        s.prefix.push(op(DropH, R4));
                    }
                    s.threads = vec![
                        vec![opv(TrySend, S0, 1)],
                        vec![op(Recv, R0)],
                        vec![opd(AddStream, R1, R4), op(DropH, R4)],
                    ];
                    out.push(s);
                }
                // the sender was cloned and the original dropped: the remaining
                // handle is in multi-writer mode with a writer count of 1 and
                // falls back to the single-writer path on its next send
                let mut s = Scn::new("c08-recv-vs-send-from-downgraded-sender", cfg);
                s.prefix = vec![opd(CloneH, S0, S1), op(DropH, S0)];
                s.threads = vec![vec![opv(TrySend, S1, 1)], vec![op(Recv, R0)]];
                out.push(s);
                // two consumers of one stream each take one value and leave;
                // the producer sends exactly two and keeps its handle
                let mut s = Scn::new("c08-two-consumers-one-each", cfg);
                s.prefix = vec![opd(CloneH, R0, R1)];
                s.threads = vec![
                    vec![opv(SendRetry, S0, 1), opv(SendRetry, S0, 2)],
                    vec![op(Recv, R0)],
                    vec![op(Recv, R1)],
                ];
                out.push(s);
                // view receiver
                let mut s = Scn::new("c08-recvview-vs-send-drop", cfg);
                s.prefix = vec![op(IntoSingle, R0)];
                s.threads = vec![
                    vec![opv(TrySend, S0, 1), op(DropH, S0)],
                    vec![op(RecvView, R0), op(RecvView, R0)],
                ];
                out.push(s);
                // blocking view iterator
                let mut s = Scn::new("c08-iterwith-until-end", cfg);
                s.prefix = vec![op(IntoSingle, R0)];
                s.threads = vec![
                    vec![opv(SendRetry, S0, 1), opv(SendRetry, S0, 2), op(DropH, S0)],
                    vec![op(IterWithAll, R0)],
                ];
                out.push(s);
                // blocking iterator
                let mut s = Scn::new("c08-iter-until-end", cfg);
                s.threads = vec![
                    vec![opv(SendRetry, S0, 1), opv(SendRetry, S0, 2), op(DropH, S0)],
                    vec![op(IterAll, R0)],
                ];
                out.push(s);
                // the last two sender handles leave at the same time
                let mut s = Scn::new("c08-two-senders-leave-vs-blocked-recv", cfg);
                s.prefix = vec![opd(CloneH, S0, S1)];
                s.threads = vec![
                    vec![opv(TrySend, S0, 1), op(DropH, S0)],
                    vec![op(DropH, S1)],
                    vec![op(RecvAll, R0)],
                ];
                out.push(s);
                if fl == Flavour::B {
                    // consumers on separate streams
                    let mut s = Scn::new("c08-two-streams", cfg);
                    s.prefix = vec![opd(AddStream, R0, R1)];
                    s.threads = vec![
                        vec![opv(SendRetry, S0, 1), op(DropH, S0)],
                        vec![op(Recv, R0), op(Recv, R0)],
                        vec![op(Recv, R1), op(Recv, R1)],
                    ];
                    out.push(s);
                }
            }
        }
    }
    for s in out.iter_mut() {
        s.tags = &["C08"];
        s.hang_prop = "C08";
        s.post = Post::Drain;
    }
    out
}

/// C10: add_stream racing with a wrapping producer and a sibling consumer.
pub fn c10_scenarios(ns: &[u64], fut: bool) -> Vec<Scn> {
    let mut out = Vec::new();
    for &n in ns {
        let cfg = if fut {
            qf(Flavour::B, n, (0, 0))
        } else {
            q(Flavour::B, n, WaitK::Busy)
        };
        for st in [St::Full, St::WrappedFull, St::One] {
            let stn = format!("{:?}", st);
            // parent handle is one of two handles of its stream
            let mut s = Scn::new(&name("c10-addstream-vs-producer-vs-sibling", &stn), cfg);
            s.prefix = prep(st, n, &[R0]);
            s.prefix.push(opd(CloneH, R0, R1));
            s.threads = vec![
                vec![opd(AddStream, R0, R2)],
                vec![opv(TrySend, S0, 1), opv(TrySend, S0, 2)],
                vec![op(TryRecv, R1), op(TryRecv, R1)],
            ];
            out.push(s);
            // sole handle adds a stream and also receives
            let mut s = Scn::new(&name("c10-addstream-sole-vs-producer", &stn), cfg);
            s.prefix = prep(st, n, &[R0]);
            s.threads = vec![
                vec![op(TryRecv, R0), opd(AddStream, R0, R2), op(TryRecv, R0)],
                vec![opv(TrySend, S0, 1), opv(TrySend, S0, 2)],
            ];
            out.push(s);
            // the adding handle receives right after: a writer that read the old
            // list must not take the parent's new position for the minimum
            let mut s = Scn::new(&name("c10-addstream-then-recv-vs-producer", &stn), cfg);
            s.prefix = prep(st, n, &[R0]);
            s.threads = vec![
                vec![opd(AddStream, R0, R2), op(TryRecv, R0), op(TryRecv, R0)],
                vec![opv(TrySend, S0, 1), opv(TrySend, S0, 2)],
            ];
            out.push(s);
            // sibling consumer and producer in one thread: reaches, with one
            // preemption less, the window between the publication of the new
            // stream and the correction of its position
            let mut s = Scn::new(&name("c10-addstream-vs-sibling-then-producer", &stn), cfg);
            s.prefix = prep(st, n, &[R0]);
            s.prefix.push(opd(CloneH, R0, R1));
            s.threads = vec![
                vec![opd(AddStream, R0, R2)],
                vec![op(TryRecv, R1), opv(TrySend, S0, 1), opv(TrySend, S0, 2)],
            ];
            out.push(s);
            // two streams are added at the same time (one CAS loses)
            let mut s = Scn::new(&name("c10-two-addstreams-vs-producer", &stn), cfg);
            s.prefix = prep(st, n, &[R0]);
            s.prefix.push(opd(CloneH, R0, R1));
            s.threads = vec![
                vec![opd(AddStream, R0, R2), op(TryRecv, R0)],
                vec![opd(AddStream, R1, R3)],
                vec![opv(TrySend, S0, 1), opv(TrySend, S0, 2)],
            ];
            out.push(s);
            // another stream consumes meanwhile
            let mut s = Scn::new(&name("c10-addstream-vs-other-stream", &stn), cfg);
            s.prefix = vec![opd(AddStream, R0, R1)];
            s.prefix.extend(prep(st, n, &[R0, R1]));
            s.threads = vec![
                vec![opd(AddStream, R0, R2)],
                vec![opv(TrySend, S0, 1), opv(TrySend, S0, 2)],
                vec![op(TryRecv, R1), op(TryRecv, R1)],
            ];
            out.push(s);
        }
    }
    for s in out.iter_mut() {
        s.tags = &["C10", "C01", "C02", "C03", "C06"];
        s.hang_prop = "C10";
        s.post = Post::Quiesce;
    }
    out
}

/// C11: removing streams / handles vs a retrying producer.
pub fn c11_scenarios(ns: &[u64], fut: bool) -> Vec<Scn> {
    let mut out = Vec::new();
    for &n in ns {
        let cfg = if fut {
            qf(Flavour::B, n, (0, 0))
        } else {
            q(Flavour::B, n, WaitK::Busy)
        };
        for leave in [DropH, Unsub] {
            let ln = format!("{:?}", leave);
            // slowest stream (the one that makes the queue full) leaves
            let mut s = Scn::new(&name("c11-slowest-leaves-vs-retry", &ln), cfg);
            s.prefix = vec![opd(AddStream, R0, R1)];
            s.prefix.extend(prep(St::Full, n, &[R0])); // R0 drained? no: prep Full only sends
            s.prefix.extend((0..n).map(|_| op(TryRecv, R0)));
            s.threads = vec![
                vec![op(leave, R1)],
                vec![opv(if fut { SinkSend } else { SendRetry }, S0, 1)],
                vec![op(TryRecv, R0)],
            ];
            out.push(s);
            if fut {
                // nothing else happens: only the removal can wake the parked sender
                let mut s = Scn::new(&name("c11-slowest-leaves-vs-parked-sink", &ln), cfg);
                s.prefix = vec![opd(AddStream, R0, R1)];
                s.prefix.extend(prep(St::Full, n, &[R0]));
                s.prefix.extend((0..n).map(|_| op(TryRecv, R0)));
                s.threads = vec![vec![op(leave, R1)], vec![opv(SinkSend, S0, 1)]];
                out.push(s);
            }
            // fastest stream leaves: backpressure of the slow one must stay
            let mut s = Scn::new(&name("c11-fastest-leaves-keeps-backpressure", &ln), cfg);
            s.prefix = vec![opd(AddStream, R0, R1)];
            s.prefix.extend(prep(St::Full, n, &[R0]));
            s.prefix.extend((0..n).map(|_| op(TryRecv, R0)));
            s.threads = vec![
                vec![op(leave, R0)],
                vec![opv(TrySend, S0, 1), opv(TrySend, S0, 2)],
                vec![op(TryRecv, R1)],
            ];
            out.push(s);
            // non-last handle of the slow stream leaves
            let mut s = Scn::new(&name("c11-nonlast-handle-leaves", &ln), cfg);
            s.prefix = vec![opd(AddStream, R0, R1), opd(CloneH, R1, R2)];
            s.prefix.extend(prep(St::Full, n, &[R0]));
            s.prefix.extend((0..n).map(|_| op(TryRecv, R0)));
            s.threads = vec![
                vec![op(leave, R2)],
                vec![opv(TrySend, S0, 1)],
                vec![op(TryRecv, R1), op(TryRecv, R0)],
            ];
            out.push(s);
        }
        // the last handle of one stream leaves while another stream is being added
        for leave in [DropH, Unsub] {
            let mut s = Scn::new(&name("c11-stream-leaves-vs-addstream", &format!("{:?}", leave)), cfg);
            s.prefix = vec![opd(AddStream, R0, R1)];
            s.prefix.extend(prep(St::One, n, &[]));
            s.threads = vec![
                vec![op(leave, R1)],
                vec![opd(AddStream, R0, R2), op(TryRecv, R0)],
                vec![opv(TrySend, S0, 1), opv(TrySend, S0, 2)],
            ];
            out.push(s);
        }
        // two handles of the same stream unsubscribe concurrently
        let mut s = Scn::new("c11-two-unsubscribes-same-stream", cfg);
        s.prefix = vec![opd(AddStream, R0, R1), opd(CloneH, R1, R2)];
        s.prefix.extend(prep(St::One, n, &[R0]));
        s.threads = vec![vec![op(Unsub, R1)], vec![op(Unsub, R2)], vec![opv(TrySend, S0, 1)]];
        out.push(s);
        if !fut {
            // mpmc: non-last and last handle
            let m = q(Flavour::M, n, WaitK::Busy);
            let mut s = Scn::new("c11-mpmc-two-unsubscribes", m);
            s.prefix = vec![opd(CloneH, R0, R1), opd(CloneH, R0, R2)];
            s.prefix.extend(prep(St::One, n, &[]));
            s.threads = vec![vec![op(Unsub, R1)], vec![op(Unsub, R2)], vec![op(TryRecv, R0)]];
            out.push(s);
        }
    }
    for s in out.iter_mut() {
        s.tags = &["C11", "C01", "C03", "C06"];
        s.hang_prop = "C11";
        s.post = Post::Quiesce;
    }
    out
}

/// C12: population changes 1->2->1 mid traffic.
pub fn c12_scenarios(ns: &[u64]) -> Vec<Scn> {
    let mut out = Vec::new();
    for fl in flavours() {
        for &n in ns {
            let cfg = q(fl, n, WaitK::Busy);
            // sender population 1 -> 2 -> 1
            let mut s = Scn::new("c12-sender-clone-handoff-drop", cfg);
            s.threads = vec![
                vec![
                    opv(TrySend, S0, 1),
                    opd(CloneH, S0, S1),
                    opv(FlagSet, 0, 0),
                    opv(TrySend, S0, 2),
                    opv(TrySend, S0, 3),
                ],
                vec![opv(Await, 0, 0), opv(TrySend, S1, 11), op(DropH, S1)],
                vec![op(TryRecv, R0), op(TryRecv, R0), op(TryRecv, R0)],
            ];
            out.push(s);
            // consumer population 1 -> 2 -> 1 (clone, both receive, one leaves)
            for leave in [DropH, Unsub] {
                let mut s = Scn::new(&name("c12-receiver-clone-handoff-leave", &format!("{:?}", leave)), cfg);
                s.prefix = prep(St::One, n, &[R0]);
                s.threads = vec![
                    vec![
                        op(TryRecv, R0),
                        opd(CloneH, R0, R1),
                        opv(FlagSet, 0, 0),
                        op(TryRecv, R0),
                        op(TryRecv, R0),
                    ],
                    vec![opv(Await, 0, 0), op(TryRecv, R1), op(leave, R1)],
                    vec![opv(TrySend, S0, 1), opv(TrySend, S0, 2), opv(TrySend, S0, 3)],
                ];
                out.push(s);
            }
            // into_single / into_multi round trip between receives
            let mut s = Scn::new("c12-single-multi-roundtrip", cfg);
            s.prefix = prep(St::One, n, &[R0]);
            s.threads = vec![
                vec![
                    op(TryRecv, R0),
                    op(IntoSingle, R0),
                    op(TryRecvView, R0),
                    op(IntoMulti, R0),
                    op(TryRecv, R0),
                ],
                vec![opv(TrySend, S0, 1), opv(TrySend, S0, 2), opv(TrySend, S0, 3)],
            ];
            out.push(s);
            // clone then immediately drop the clone while the sibling is mid-receive
            let mut s = Scn::new("c12-receiver-clone-drop-vs-sibling", cfg);
            s.prefix = prep(St::Full, n, &[R0]);
            s.prefix.push(opd(CloneH, R0, R1));
            s.threads = vec![
                vec![op(TryRecv, R0), op(TryRecv, R0)],
                vec![op(DropH, R1)],
                vec![opv(TrySend, S0, 1), opv(TrySend, S0, 2)],
            ];
            out.push(s);
            // sender clone dropped while the original is mid-send
            let mut s = Scn::new("c12-sender-clone-drop-vs-send", cfg);
            s.prefix = vec![opd(CloneH, S0, S1)];
            s.threads = vec![
                vec![opv(TrySend, S0, 1), opv(TrySend, S0, 2), opv(TrySend, S0, 3)],
                vec![opv(TrySend, S1, 11), op(DropH, S1)],
                vec![op(TryRecv, R0), op(TryRecv, R0)],
            ];
            out.push(s);
        }
    }
    // futures receivers: into_single(op) / transform_operation / into_multi
    // between polls (each conversion re-registers the stream)
    for &n in ns {
        let cfg = qf(Flavour::B, n, (0, 0));
        let mut s = Scn::new("c12-fut-single-transform-multi-roundtrip", cfg);
        s.prefix = prep(St::One, n, &[R0]);
        s.threads = vec![
            vec![
                op(PollS, R0),
                op(IntoSingle, R0),
                op(PollS, R0),
                op(Transform, R0),
                op(PollS, R0),
                op(IntoMulti, R0),
                op(PollS, R0),
            ],
            vec![opv(TrySend, S0, 1), opv(TrySend, S0, 2), opv(TrySend, S0, 3)],
        ];
        out.push(s);
    }
    {
        // the move-out futures flavour has default spin counts only: long executions
        let cfg = qf(Flavour::M, 1, (0, 0));
        let mut s = Scn::new("c12-mpmcfut-single-transform-multi-roundtrip", cfg);
        s.prefix = prep(St::One, 1, &[R0]);
        s.threads = vec![
            vec![op(TryRecv, R0), op(IntoSingle, R0), op(TryRecv, R0), op(Transform, R0), op(TryRecv, R0), op(IntoMulti, R0), op(TryRecv, R0)],
            vec![opv(TrySend, S0, 1), opv(TrySend, S0, 2), opv(TrySend, S0, 3)],
        ];
        out.push(s);
    }
    for s in out.iter_mut() {
        s.tags = &["C12", "C01", "C02", "C03", "C06"];
        s.hang_prop = "C12";
        s.post = Post::Quiesce;
    }
    out
}

/// C13: sends after / racing with the last receiver's departure.
pub fn c13_scenarios(ns: &[u64]) -> Vec<Scn> {
    let mut out = Vec::new();
    for fl in flavours() {
        for &n in ns {
            let cfg = q(fl, n, WaitK::Busy);
            for st in [St::Empty, St::Full] {
                let mut s = Scn::new(&name("c13-trysend-vs-last-receiver-drop", &format!("{:?}", st)), cfg);
                s.prefix = prep(st, n, &[R0]);
                s.threads = vec![
                    vec![opv(TrySend, S0, 1), opv(TrySend, S0, 2)],
                    vec![op(DropH, R0)],
                ];
                out.push(s);
            }
            if fl == Flavour::B {
                let mut s = Scn::new("c13-two-streams-leave", cfg);
                s.prefix = vec![opd(AddStream, R0, R1)];
                s.threads = vec![
                    vec![opv(TrySend, S0, 1), opv(TrySend, S0, 2)],
                    vec![op(DropH, R0)],
                    vec![op(Unsub, R1)],
                ];
                out.push(s);
            }
        }
    }
    // futures sink parking on a full queue while the last receiver leaves
    for fl in flavours() {
        for &n in ns {
            let cfg = qf(fl, n, (0, 0));
            if fl == Flavour::M {
                continue;
            }
            let mut s = Scn::new("c13-sink-parks-vs-last-receiver-drop", cfg);
            s.prefix = prep(St::Full, n, &[R0]);
            s.threads = vec![vec![opv(SinkSend, S0, 1)], vec![op(DropH, R0)]];
            out.push(s);
            let mut s = Scn::new("c13-sink-after-receivers-gone", cfg);
            s.prefix = prep(St::One, n, &[R0]);
            s.threads = vec![
                vec![opv(SinkSend, S0, 1), opv(SinkSend, S0, 2)],
                vec![op(DropH, R0)],
            ];
            out.push(s);
        }
    }
    for s in out.iter_mut() {
        s.tags = &["C13"];
        s.hang_prop = "C13";
        s.post = Post::None;
    }
    out
}

/// C14: parked tasks must be notified.
pub fn c14_scenarios(ns: &[u64], spins: &[(usize, usize)]) -> Vec<Scn> {
    let mut out = Vec::new();
    for &n in ns {
        for &sp in spins {
            let cfg = qf(Flavour::B, n, sp);
            // one sink task, one stream task
            let mut s = Scn::new("c14-sink2-stream-all", cfg);
            s.threads = vec![
                vec![opv(SinkSend, S0, 1), opv(SinkSend, S0, 2), op(DropH, S0)],
                vec![op(StreamAll, R0)],
            ];
            out.push(s);
            // two stream tasks share a stream
            let mut s = Scn::new("c14-sink-two-stream-tasks-shared", cfg);
            s.prefix = vec![opd(CloneH, R0, R1)];
            s.threads = vec![
                vec![opv(SinkSend, S0, 1), opv(SinkSend, S0, 2), op(DropH, S0)],
                vec![op(StreamAll, R0)],
                vec![op(StreamAll, R1)],
            ];
            out.push(s);
            // separate streams
            let mut s = Scn::new("c14-sink-two-streams", cfg);
            s.prefix = vec![opd(AddStream, R0, R1)];
            s.threads = vec![
                vec![opv(SinkSend, S0, 1), opv(SinkSend, S0, 2), op(DropH, S0)],
                vec![op(StreamAll, R0)],
                vec![op(StreamAll, R1)],
            ];
            out.push(s);
            // receiver drains through the direct try_recv: sink must be woken
            let mut s = Scn::new("c14-sink-parked-vs-direct-tryrecv", cfg);
            s.prefix = prep(St::Full, n, &[R0]);
            s.threads = vec![
                vec![opv(SinkSend, S0, 1)],
                vec![op(TryRecv, R0)],
            ];
            out.push(s);
            // two handles of one stream use the direct blocking recv() / try_recv
            // while a sink task sends two values: a receive that pins a slot,
            // loses the value to its sibling and goes to sleep inside recv() must
            // not leave the sender that was refused for the pin parked
            for (nm, second) in [("recv", Recv), ("tryrecv", TryRecv)] {
                let mut s = Scn::new(&name("c14-sink-vs-direct-recv-on-shared-stream", nm), cfg);
                s.prefix = vec![opd(CloneH, R0, R1)];
                s.threads = vec![
                    vec![opv(SinkSend, S0, 1), opv(SinkSend, S0, 2), op(DropH, S0)],
                    vec![op(Recv, R0)],
                    vec![op(second, R1)],
                ];
                s.slow = 1;
                out.push(s);
            }
            // a sibling handle subscribes a new stream while the main handle takes
            // the last value directly: the new stream is published at a stale
            // position (holding the writers back) and then moved forward - a
            // sender refused in between must not stay parked
            let mut s = Scn::new("c14-sink-vs-direct-recv-vs-add-stream", cfg);
            s.prefix = vec![opd(CloneH, R0, R1)];
            s.prefix.extend(prep(St::Full, n, &[R0]));
            s.threads = vec![
                vec![opv(SinkSend, S0, 1)],
                vec![op(TryRecv, R0)],
                vec![opd(AddStream, R1, R2), op(TryRecv, R2)],
            ];
            out.push(s);
            // the same without any later operation on the new stream (every such
            // operation would wake the sender by accident). If the new stream was
            // subscribed before the value was taken it holds that value and the
            // sender is refused for good reason: a probe send tells the two apart
            let mut s = Scn::new("c14-sink-vs-direct-recv-vs-add-stream-left-idle", cfg);
            s.prefix = vec![opd(CloneH, R0, R1), opd(CloneH, S0, S1)];
            s.prefix.extend(prep(St::Full, n, &[R0]));
            s.threads = vec![
                vec![opv(SinkSend, S0, 1)],
                vec![(0..n).map(|_| op(TryRecv, R0)).collect::<Vec<_>>()].concat(),
                vec![opd(AddStream, R1, R2)],
            ];
            s.hang_probe = Some(S1);
            out.push(s);
            // the sibling takes the value and leaves while the first handle is
            // inside its own (failing) try_recv: that handle is the sole consumer
            // when it returns, but it did pin the slot the sender was refused for
            let mut s = Scn::new("c14-sink-vs-direct-tryrecv-vs-sibling-recv-and-drop", cfg);
            // (the one-shot receives may both come too early and leave the queue
            // full for good: the probe send tells that case apart)
            s.prefix = vec![opd(CloneH, R0, R1), opd(CloneH, S0, S1)];
            s.hang_probe = Some(S1);
            s.threads = vec![
                vec![opv(SinkSend, S0, 1), opv(SinkSend, S0, 2), op(DropH, S0)],
                vec![op(TryRecv, R0)],
                vec![op(TryRecv, R1), op(DropH, R1)],
            ];
            s.slow = 1;
            out.push(s);
            // receiver is dropped while the sink is parked (other stream remains)
            let mut s = Scn::new("c14-sink-parked-vs-stream-removed", cfg);
            s.prefix = vec![opd(AddStream, R0, R1)];
            s.prefix.extend(prep(St::Full, n, &[R0]));
            s.prefix.extend((0..n).map(|_| op(TryRecv, R0)));
            s.threads = vec![
                vec![opv(SinkSend, S0, 1)],
                vec![op(DropH, R1)],
            ];
            out.push(s);
            // the same, leaving through unsubscribe()
            let mut s = Scn::new("c14-sink-parked-vs-stream-unsubscribed", cfg);
            s.prefix = vec![opd(AddStream, R0, R1)];
            s.prefix.extend(prep(St::Full, n, &[R0]));
            s.prefix.extend((0..n).map(|_| op(TryRecv, R0)));
            s.threads = vec![vec![opv(SinkSend, S0, 1)], vec![op(Unsub, R1)]];
            out.push(s);
            // last sender dropped while stream tasks are parked
            let mut s = Scn::new("c14-streams-parked-vs-last-sender-drop", cfg);
            s.prefix = vec![opd(CloneH, R0, R1)];
            s.threads = vec![
                vec![op(DropH, S0)],
                vec![op(StreamAll, R0)],
                vec![op(StreamAll, R1)],
            ];
            out.push(s);
            // two sink tasks, one stream task
            let mut s = Scn::new("c14-two-sinks-one-stream", cfg);
            s.prefix = vec![opd(CloneH, S0, S1)];
            s.threads = vec![
                vec![opv(SinkSend, S0, 1), op(DropH, S0)],
                vec![opv(SinkSend, S1, 11), op(DropH, S1)],
                vec![op(StreamAll, R0)],
            ];
            out.push(s);
            // the last two senders leave at the same time while a stream task is parked
            let mut s = Scn::new("c14-two-senders-leave-vs-parked-stream", cfg);
            s.prefix = vec![opd(CloneH, S0, S1)];
            s.threads = vec![
                vec![opv(SinkSend, S0, 1), op(DropH, S0)],
                vec![op(DropH, S1)],
                vec![op(StreamAll, R0)],
            ];
            out.push(s);
            // a stream task on one handle of a shared stream; the sender and the
            // sibling consumer (direct try_recv) act from one thread
            let mut s = Scn::new("c14-stream-task-vs-sender-and-sibling", cfg);
            s.prefix = vec![opd(CloneH, R0, R1)];
            s.threads = vec![
                vec![op(StreamNext, R0)],
                vec![opv(SinkSend, S0, 1), op(TryRecv, R1), opv(SinkSend, S0, 2)],
            ];
            out.push(s);
            // a receiver that went through into_single(op) and back
            let mut s = Scn::new("c14-stream-after-single-multi-roundtrip", cfg);
            s.prefix = vec![op(IntoSingle, R0), op(IntoMulti, R0)];
            s.threads = vec![
                vec![opv(SinkSend, S0, 1), opv(SinkSend, S0, 2), op(DropH, S0)],
                vec![op(StreamAll, R0)],
            ];
            out.push(s);
            // ... and through transform_operation
            let mut s = Scn::new("c14-stream-after-transform", cfg);
            s.prefix = vec![op(IntoSingle, R0), op(Transform, R0)];
            s.threads = vec![
                vec![opv(SinkSend, S0, 1), opv(SinkSend, S0, 2), op(DropH, S0)],
                vec![op(StreamAll, R0)],
            ];
            out.push(s);
            // single-consumer futures receiver
            let mut s = Scn::new("c14-sink-uni-stream", cfg);
            s.prefix = vec![op(IntoSingle, R0)];
            s.threads = vec![
                vec![opv(SinkSend, S0, 1), opv(SinkSend, S0, 2), op(DropH, S0)],
                vec![op(StreamAll, R0)],
            ];
            out.push(s);
        }
    }
    for s in out.iter_mut() {
        s.tags = &["C14", "C01", "C02"];
        s.hang_prop = "C14";
        s.post = Post::Drain;
        s.horizon = 60_000;
    }
    out
}

/// C16: stream/handle churn at the reclamation threshold vs scanning writers.
pub fn c16_scenarios(ns: &[u64]) -> Vec<Scn> {
    let mut out = Vec::new();
    for &n in ns {
        let cfg = q(Flavour::B, n, WaitK::Busy);
        for pre_cycles in [9usize, 10, 20] {
            // each add_stream+drop retires: old group (add), old group + pos (remove), token
            let mut churn = Vec::new();
            for _ in 0..pre_cycles {
                churn.push(opd(AddStream, R0, R4));
                churn.push(op(DropH, R4));
            }
            let mut s = Scn::new(&name("c16-churn-vs-writer-scan", &format!("pre{}", pre_cycles)), cfg);
            s.prefix = prep(St::Full, n, &[R0]);
            s.prefix.extend(churn.clone());
            s.prefix.push(opd(CloneH, R0, R1)); // the churner's own handle
            s.prefix.push(opd(AddStream, R0, 8)); // an idle stream that never operates
            s.threads = vec![
                vec![opd(AddStream, R1, R2), op(DropH, R2), opd(AddStream, R1, R3), op(DropH, R3)],
                vec![opv(TrySend, S0, 1), opv(TrySend, S0, 2)],
                vec![op(TryRecv, R0)],
            ];
            out.push(s);
            let mut s = Scn::new(&name("c16-clone-churn-vs-two-writers", &format!("pre{}", pre_cycles)), cfg);
            s.prefix = vec![opd(CloneH, S0, S1)];
            s.prefix.extend(prep(St::Full, n, &[R0]));
            s.prefix.extend(churn.clone());
            s.threads = vec![
                vec![opd(AddStream, R0, R2), op(DropH, R2), opd(CloneH, R0, R3), op(DropH, R3)],
                vec![opv(TrySend, S0, 1), opv(TrySend, S0, 2)],
                vec![opv(TrySend, S1, 11), op(DropH, S1)],
            ];
            out.push(s);
        }
    }
    // two handles retire objects at the same time just as the retirement list
    // crosses its threshold, while a writer is in the middle of a list scan
    for pre_cycles in [3usize, 4, 5] {
        let cfg = q(Flavour::B, 1, WaitK::Busy);
        let mut s = Scn::new(&name("c16-two-retirers-at-threshold-vs-scan", &format!("pre{}", pre_cycles)), cfg);
        s.prefix = prep(St::Full, 1, &[R0]);
        for _ in 0..pre_cycles {
            s.prefix.push(opd(AddStream, R0, R4));
            s.prefix.push(op(DropH, R4));
        }
        s.prefix.push(opd(AddStream, R0, R1));
        s.prefix.push(opd(AddStream, R0, R2));
        s.threads = vec![
            vec![op(DropH, R1)],
            vec![op(DropH, R2)],
            vec![opv(TrySend, S0, 1)],
        ];
        out.push(s);
    }
    // a handle leaves (its token must stay registered until it is done with the
    // stream list) while another handle alone retires that list and drives a
    // whole reclamation cycle to completion
    for j in [0usize, 2] {
        let cfg = q(Flavour::B, 1, WaitK::Busy);
        let mut s = Scn::new(&name("c16-leaver-vs-full-cycle", &format!("plus{}", j)), cfg);
        s.prefix = vec![opd(AddStream, R0, R1)];
        for _ in 0..j {
            s.prefix.push(opd(CloneH, R0, R4));
            s.prefix.push(op(DropH, R4));
        }
        let mut a = vec![opd(AddStream, R0, R2)];
        for _ in 0..5 {
            a.push(opd(AddStream, R0, R4));
            a.push(op(DropH, R4));
        }
        a.extend([op(TryRecv, R0), opv(TrySend, S0, 1), op(TryRecv, R2), op(DropH, R2)]);
        s.threads = vec![vec![op(DropH, R1)], a];
        s.horizon = 60_000;
        out.push(s);
    }
    // a writer is in the middle of a list scan (its token still at the old epoch)
    // while one other thread opens a reclamation cycle, brings every other handle
    // up to date, drops a handle that was created before the writer's, and retires
    // more: the cycle must not complete over the writer's head
    {
        let cfg = q(Flavour::B, 1, WaitK::Busy);
        let mut s = Scn::new("c16-scan-vs-cycle-and-earlier-handle-drop", cfg);
        s.prefix = prep(St::Full, 1, &[R0]);
        s.prefix.push(opd(CloneH, S0, S1));
        s.prefix.push(opd(CloneH, S0, S2));
        s.prefix.push(opd(AddStream, R0, 8));
        let mut a = Vec::new();
        for _ in 0..6 {
            a.push(opd(AddStream, R0, R4));
            a.push(op(DropH, R4));
        }
        a.extend([opv(TrySend, S0, 1), op(TryRecv, R0), opv(TrySend, S1, 11), op(TryRecv, 8)]);
        a.extend([opd(CloneH, R0, R4), op(DropH, R4), op(DropH, S1), opd(CloneH, R0, R4), op(DropH, R4)]);
        s.threads = vec![vec![opv(TrySend, S2, 21)], a];
        s.horizon = 60_000;
        out.push(s);
    }
    // a cycle is open because of an idle straggler; more retirements arrive (the
    // count is swept across the threshold); the straggler leaves while a writer
    // that already announced the new epoch is in the middle of a list scan
    for j in [0usize, 1, 2] {
        let cfg = q(Flavour::B, 1, WaitK::Busy);
        let mut s = Scn::new(&name("c16-open-cycle-straggler-leaves-vs-scan", &format!("plus{}", j)), cfg);
        s.prefix = vec![opv(TrySend, S0, 100), opd(CloneH, S0, S1)];
        s.prefix.push(opd(AddStream, R0, 8)); // an idle stream: the list has two entries
        for _ in 0..6 {
            s.prefix.push(opd(AddStream, R0, R4));
            s.prefix.push(op(DropH, R4));
        }
        s.prefix.push(op(TryRecv, R0));
        s.prefix.push(opv(TrySend, S0, 101));
        for _ in 0..4 {
            s.prefix.push(opd(AddStream, R0, R4));
            s.prefix.push(op(DropH, R4));
        }
        for _ in 0..j {
            s.prefix.push(opd(CloneH, R0, R4));
            s.prefix.push(op(DropH, R4));
        }
        s.threads = vec![
            vec![opv(TrySend, S0, 1)],
            vec![opd(AddStream, R0, R2), op(DropH, S1)],
        ];
        out.push(s);
    }
    // a queue with room: the writer both succeeds and (on its second send)
    // scans the stream list while streams come and go and a handle is cloned
    // and dropped in the middle of a reclamation cycle
    for pre_cycles in [6usize, 7, 10] {
        let cfg = q(Flavour::B, 4, WaitK::Busy);
        let mut churn = Vec::new();
        for _ in 0..pre_cycles {
            churn.push(opd(AddStream, R0, R4));
            churn.push(op(DropH, R4));
        }
        let mut s = Scn::new(&name("c16-churn-vs-traffic", &format!("pre{}", pre_cycles)), cfg);
        s.prefix = prep(St::WrappedOne, 4, &[R0]);
        s.prefix.extend(churn.clone());
        s.prefix.push(opd(CloneH, R0, R1));
        s.threads = vec![
            vec![opd(AddStream, R1, R2), op(DropH, R2), opd(CloneH, R1, R3), op(DropH, R3)],
            vec![opv(TrySend, S0, 1), opv(TrySend, S0, 2), opv(TrySend, S0, 3), opv(TrySend, S0, 4)],
            vec![op(TryRecv, R0), op(TryRecv, R0)],
        ];
        out.push(s);
        // sender handles come and go while a stream is being removed
        let mut s = Scn::new(&name("c16-sender-churn-vs-stream-removal", &format!("pre{}", pre_cycles)), cfg);
        s.prefix = prep(St::One, 4, &[R0]);
        s.prefix.extend(churn.clone());
        s.prefix.push(opd(AddStream, R0, R1));
        s.prefix.push(opd(CloneH, S0, S2));
        s.threads = vec![
            vec![opd(CloneH, S2, S1), opv(TrySend, S1, 11), op(DropH, S1)],
            vec![op(TryRecv, R1), op(DropH, R1)],
            vec![opv(TrySend, S0, 1), opv(TrySend, S0, 2)],
        ];
        out.push(s);
    }
    for s in out.iter_mut() {
        s.tags = &["C16"];
        s.hang_prop = "C16";
        s.post = Post::Quiesce;
        s.horizon = 40_000;
    }
    out
}

/// C18: one try operation run solo from every reachable state.
pub fn c18_scenarios(ns: &[u64]) -> Vec<Scn> {
    let mut out = Vec::new();
    for fl in flavours() {
        for &n in ns {
            for w in [WaitK::Busy, WaitK::Yield(0, 0)] {
                let cfg = q(fl, n, w);
                for probe in [TrySend, TryRecv, TryRecvView] {
                    if probe == TryRecvView && fl == Flavour::M && false {
                        continue;
                    }
                    let pn = format!("{:?}", probe);
                    // others: one producer and one consumer mid-traffic
                    let mut s = Scn::new(&name("c18-solo-vs-traffic", &pn), cfg);
                    let mut threads = vec![
                        vec![opv(TrySend, S0, 1), opv(TrySend, S0, 2)],
                        vec![op(TryRecv, R0), op(TryRecv, R0)],
                    ];
                    match probe {
                        TrySend => {
                            s.prefix = vec![opd(CloneH, S0, S1)];
                            threads.push(vec![opv(TrySend, S1, 21)]);
                        }
                        TryRecv => {
                            s.prefix = vec![opd(CloneH, R0, R1)];
                            threads.push(vec![op(TryRecv, R1)]);
                        }
                        _ => {
                            if fl == Flavour::M {
                                // a view receiver must be the only consumer
                                threads.remove(1);
                                s.prefix = vec![op(IntoSingle, R0)];
                                threads.push(vec![op(TryRecvView, R0)]);
                            } else {
                                s.prefix = vec![opd(AddStream, R0, R1), op(IntoSingle, R1)];
                                threads.push(vec![op(TryRecvView, R1)]);
                            }
                        }
                    }
                    s.solo = Some(threads.len() - 1);
                    s.threads = threads;
                    out.push(s);
                    // from a full queue with two senders
                    let mut s = Scn::new(&name("c18-solo-vs-two-writers-full", &pn), cfg);
                    s.prefix = vec![opd(CloneH, S0, S1)];
                    s.prefix.extend(prep(St::StaleCache, n, &[R0]));
                    let mut threads = vec![
                        vec![opv(TrySend, S0, 1)],
                        vec![opv(TrySend, S1, 11)],
                    ];
                    match probe {
                        TrySend => {
                            s.prefix.push(opd(CloneH, S0, S2));
                            threads.push(vec![opv(TrySend, S2, 21)]);
                        }
                        TryRecv => threads.push(vec![op(TryRecv, R0)]),
                        _ => {
                            s.prefix.push(op(IntoSingle, R0));
                            threads.push(vec![op(TryRecvView, R0)]);
                        }
                    }
                    s.solo = Some(threads.len() - 1);
                    s.threads = threads;
                    out.push(s);
                }
            }
        }
    }
    // a reclamation epoch is pending (the try operation has to announce it) while
    // other threads are frozen anywhere inside handle clone / add_stream / drop
    for w in [WaitK::Busy, WaitK::Yield(0, 0)] {
        let cfg = q(Flavour::B, 2, w);
        for probe in [TrySend, TryRecv] {
            let mut s = Scn::new(&name("c18-solo-vs-handle-churn-epoch-pending", &format!("{:?}", probe)), cfg);
            s.prefix = vec![opd(CloneH, S0, S1), opd(CloneH, R0, R1), opd(CloneH, S0, S2), opd(CloneH, R0, R2)];
            for _ in 0..6 {
                s.prefix.push(opd(AddStream, R0, R4));
                s.prefix.push(op(DropH, R4));
            }
            let mut threads = vec![
                vec![opd(CloneH, S1, 8), op(DropH, 8)],
                vec![opd(AddStream, R1, 9), op(DropH, 9)],
            ];
            if probe == TrySend {
                threads.push(vec![opv(TrySend, S2, 21)]);
            } else {
                threads.push(vec![op(TryRecv, R2)]);
            }
            s.solo = Some(2);
            s.threads = threads;
            out.push(s);
        }
    }
    // consumers of a shared stream frozen anywhere (also between pin and unpin)
    // while a sender with a sibling tries to send / a third consumer to receive
    for &n in ns {
        for w in [WaitK::Busy, WaitK::Yield(0, 0)] {
            let cfg = q(Flavour::B, n, w);
            for probe in [TrySend, TryRecv] {
                let mut s = Scn::new(&name("c18-solo-vs-pinned-slot", &format!("{:?}", probe)), cfg);
                s.prefix = vec![opd(CloneH, S0, S1)];
                s.prefix.extend(prep(St::Full, n, &[R0]));
                s.prefix.push(opd(CloneH, R0, R1));
                let mut threads = vec![
                    vec![op(TryRecv, R0), op(TryRecv, R0)],
                    vec![op(TryRecv, R1)],
                ];
                if probe == TrySend {
                    threads.push(vec![opv(TrySend, S1, 21)]);
                } else {
                    s.prefix.push(opd(CloneH, R0, R2));
                    threads.push(vec![op(TryRecv, R2)]);
                }
                s.slow = 1;
                s.solo = Some(2);
                s.threads = threads;
                out.push(s);
            }
        }
    }
    // structural operations (add_stream, unsubscribe, into_single/into_multi,
    // receiver clone/drop) frozen anywhere while a sender - alone or with a
    // sibling - or a consumer probes a full / one-value queue (the full queue
    // makes the sender rescan the stream list)
    for &n in ns {
        for w in [WaitK::Busy, WaitK::Yield(0, 0)] {
            let cfg = q(Flavour::B, n, w);
            for st in [St::Full, St::One] {
                let fams: Vec<(&str, Vec<Op>, Vec<Vec<Op>>)> = vec![
                    ("add-stream", vec![opd(CloneH, R0, R1)], vec![vec![opd(AddStream, R1, 9), op(DropH, 9)]]),
                    // the parent moves between add_stream's snapshot and its list
                    // swap: the new stream is visible at a stale position for a while
                    (
                        "add-stream+sibling-recv",
                        vec![opd(CloneH, R0, R1), opd(CloneH, R0, R2)],
                        vec![vec![opd(AddStream, R1, 9), op(DropH, 9)], vec![op(TryRecv, R2)]],
                    ),
                    // ... and a further send is accepted meanwhile, so that the stale
                    // position is more than a lap behind the head
                    (
                        "add-stream+sibling-recv-then-send",
                        vec![opd(CloneH, R0, R1), opd(CloneH, R0, R2), opd(CloneH, S0, S2)],
                        vec![
                            vec![opd(AddStream, R1, 9), op(DropH, 9)],
                            vec![op(TryRecv, R2), opv(TrySend, S2, 31)],
                        ],
                    ),
                    ("unsub-side", vec![opd(AddStream, R0, R1)], vec![vec![op(Unsub, R1)]]),
                    ("convert", vec![opd(AddStream, R0, R1)], vec![vec![op(IntoSingle, R1), op(IntoMulti, R1)]]),
                    ("clone-drop", vec![opd(CloneH, R0, R1)], vec![vec![opd(CloneH, R1, 9), op(DropH, R1)]]),
                    // the last receiver leaves: between the publication of the empty
                    // stream list and the raising of the no-receiver flag
                    ("last-receiver-drops", vec![], vec![vec![op(DropH, R0)]]),
                    ("last-receiver-unsubscribes", vec![], vec![vec![op(Unsub, R0)]]),
                    (
                        "add+unsub",
                        vec![opd(CloneH, R0, R1), opd(AddStream, R0, R2)],
                        vec![vec![opd(AddStream, R1, 9)], vec![op(Unsub, R2)]],
                    ),
                ];
                for (fname, pre, others) in fams {
                    for probe in ["send1", "send2", "recv"] {
                        if probe == "recv" && fname.starts_with("last-receiver") {
                            continue; // the prober would use the leaving handle
                        }
                        if fname == "add-stream+sibling-recv-then-send" && (probe == "recv" || st == St::One) {
                            continue; // the window only exists for a sender on a full ring
                        }
                        if fname.starts_with("add-stream+sibling") && (n != 1 || w != WaitK::Busy) {
                            continue; // three threads: keep the quick tier quick
                        }
                        let mut s = Scn::new(&name(&format!("c18-solo-vs-{}[{:?}]", fname, st), probe), cfg);
                        s.prefix = pre.clone();
                        if probe == "send2" {
                            s.prefix.push(opd(CloneH, S0, S1));
                        }
                        s.prefix.extend(prep(st, n, &[R0]));
                        let mut threads = others.clone();
                        threads.push(match probe {
                            "send1" => vec![opv(TrySend, S0, 21)],
                            "send2" => vec![opv(TrySend, S1, 21)],
                            _ => vec![op(TryRecv, R0)],
                        });
                        s.solo = Some(threads.len() - 1);
                        s.threads = threads;
                        out.push(s);
                    }
                }
            }
        }
    }
    for s in out.iter_mut() {
        s.tags = &["C18"];
        s.hang_prop = "C18";
        s.post = Post::Drain;
        s.horizon = 5_000;
    }
    out
}

const PAIR_STATES_Q: [St; 4] = [St::Empty, St::One, St::Full, St::WrappedOne];
const PAIR_STATES_T: [St; 7] = [
    St::Empty,
    St::One,
    St::Full,
    St::Wrapped,
    St::WrappedOne,
    St::WrappedFull,
    St::StaleCache,
];

/// Role matrix: every pair and triple of roles from a fixed role set, each role
/// with handles of its own, from two prepared states. Systematic coverage of
/// *actor combinations* (the seeded changes showed that hand-picked scenarios
/// miss combinations); low bounds, many scenarios.
#[derive(Clone, Copy, PartialEq, Eq, Debug)]
pub enum Role {
    P1,
    P2,
    C1,
    C2,
    C3,
    V,
    DS,
    DR,
    DL,
    DL2,
    D0,
    UL,
    AS,
    AS2,
    CL,
    CL2,
    UC,
    CS,
    CV,
    IT,
    RD,
    AS0,
}

pub fn matrix_scenarios(fl: Flavour, n: u64, max_roles: usize) -> Vec<Scn> {
    use Role::*;
    let roles: Vec<Role> = if fl == Flavour::B {
        vec![P1, P2, C1, C2, C3, V, DS, DR, DL, DL2, D0, UL, AS, AS2, CL, CL2, UC, CS, CV, IT, RD, AS0]
    } else {
        vec![P1, P2, C1, C2, DS, DR, D0, CL, CL2, UC, CS, IT, RD]
    };
    let ops_of = |r: Role, base: u32| -> Vec<Op> {
        match r {
            P1 => vec![opv(TrySend, 0, base + 1), opv(TrySend, 0, base + 2)],
            P2 => vec![opv(TrySend, 2, base + 1)],
            C1 => vec![op(TryRecv, 1), op(TryRecv, 1)],
            C2 => vec![op(TryRecv, 4)],
            C3 => vec![op(TryRecv, 5)],
            V => vec![op(TryRecvView, 6)],
            DS => vec![op(DropH, 3)],
            DR => vec![op(DropH, 7)],
            DL => vec![op(DropH, 8)],
            DL2 => vec![op(DropH, 18)],
            D0 => vec![op(DropH, 1)],
            UL => vec![op(Unsub, 8)],
            AS => vec![opd(AddStream, 11, 12), op(TryRecv, 12)],
            AS2 => vec![opd(AddStream, 13, 14)],
            CL => vec![opd(CloneH, 15, 16), op(DropH, 16)],
            CL2 => vec![opd(CloneH, 19, 20), op(DropH, 19)],
            UC => vec![op(Unsub, 21)],
            CS => vec![opd(CloneH, 9, 10), opv(TrySend, 10, base + 1), op(DropH, 10)],
            CV => vec![op(IntoSingle, 17), op(IntoMulti, 17)],
            // the borrowing iterator on a handle of the main stream
            IT => vec![op(TryIterE, 23)],
            // a handle of the main stream takes a value and leaves at once (the
            // consumer count of the stream goes 2 -> 1 right after a receive)
            RD => vec![op(TryRecv, 24), op(DropH, 24)],
            // add_stream called on the primary handle itself (with RD the parent
            // stream has exactly two handles and loses one during the call)
            AS0 => vec![opd(AddStream, 1, 25), op(TryRecv, 25)],
        }
    };
    // what each role needs in the prefix: (op creating its handle)
    let needs = |r: Role| -> Vec<Op> {
        match r {
            P1 | C1 => vec![],
            P2 => vec![opd(CloneH, 0, 2)],
            DS => vec![opd(CloneH, 0, 3)],
            CS => vec![opd(CloneH, 0, 9)],
            C2 => vec![opd(CloneH, 1, 4)],
            DR => vec![opd(CloneH, 1, 7)],
            AS => vec![opd(CloneH, 1, 11)],
            AS2 => vec![opd(CloneH, 1, 13)],
            CL => vec![opd(CloneH, 1, 15)],
            CL2 => vec![opd(CloneH, 1, 19)],
            UC => vec![opd(CloneH, 1, 21)],
            C3 => vec![opd(AddStream, 1, 5)],
            V => vec![opd(AddStream, 1, 6), op(IntoSingle, 6)],
            DL | UL => vec![opd(AddStream, 1, 8)],
            DL2 => vec![opd(AddStream, 1, 8), opd(CloneH, 8, 18)],
            D0 => vec![],
            CV => vec![opd(AddStream, 1, 17)],
            IT => vec![opd(CloneH, 1, 23)],
            RD => vec![opd(CloneH, 1, 24)],
            AS0 => vec![],
        }
    };
    let mut combos: Vec<Vec<Role>> = Vec::new();
    for i in 0..roles.len() {
        for j in (i + 1)..roles.len() {
            combos.push(vec![roles[i], roles[j]]);
            if max_roles >= 3 {
                for k in (j + 1)..roles.len() {
                    combos.push(vec![roles[i], roles[j], roles[k]]);
                }
            }
        }
    }
    let mut out = Vec::new();
    for combo in combos {
        if combo.contains(&DL) && combo.contains(&UL) {
            continue;
        }
        if combo.contains(&D0) && combo.contains(&C1) {
            continue; // both use the primary receiver handle
        }
        if combo.contains(&AS0) && (combo.contains(&C1) || combo.contains(&D0)) {
            continue; // the primary receiver handle again
        }
        if combo.contains(&CL2) && !combo.contains(&CL) {
            continue; // a second cloner only matters next to the first
        }
        if combo.contains(&DL2) && !(combo.contains(&DL) || combo.contains(&UL)) {
            continue; // the second handle of that stream only matters with the first
        }
        // at least one role must move values, or two must change the stream set
        let traffic = combo.iter().any(|r| matches!(r, P1 | P2 | C1 | C2 | C3 | V | CS | AS | D0 | IT | RD | AS0));
        let structural_pair = combo.len() == 2 || combo.iter().filter(|r| matches!(r, CL | CL2 | UC | DR | DL | DL2 | UL | AS | AS2 | CV | AS0)).count() >= 2;
        if !traffic && !structural_pair {
            continue;
        }
        // third and fourth state, pairs only: one value queued and 24 / 20
        // retirements behind the manager (threshold: more than 20). With 24 a
        // reclamation cycle is pending and every operation of the two roles
        // has to acknowledge the epoch; with 20 the roles' own first
        // retirement opens the cycle and goes into it.
        let states: &[(St, u8)] = if combo.len() == 2 {
            &[(St::One, 0), (St::Full, 0), (St::One, 24), (St::One, 20)]
        } else {
            &[(St::One, 0), (St::Full, 0)]
        };
        for &(st, retired) in states {
            let cfg = q(fl, n, WaitK::Busy);
            let label: Vec<String> = combo.iter().map(|r| format!("{:?}", r)).collect();
            let stl = match retired {
                0 => format!("{:?}", st),
                24 => "One+epoch-pending".to_string(),
                _ => "One+20-retired".to_string(),
            };
            let mut s = Scn::new(&format!("mx-{}[{}]", label.join("+"), stl), cfg);
            if retired > 0 {
                if fl == Flavour::B {
                    for _ in 0..retired / 4 {
                        s.prefix.push(opd(AddStream, 1, 22));
                        s.prefix.push(op(DropH, 22));
                    }
                } else {
                    for _ in 0..retired {
                        s.prefix.push(opd(CloneH, 1, 22));
                        s.prefix.push(op(DropH, 22));
                    }
                }
            }
            for r in &combo {
                for o in needs(*r) {
                    if !s.prefix.contains(&o) {
                        s.prefix.push(o);
                    }
                }
            }
            // the state: values queued for every stream that exists by now
            s.prefix.extend(prep(st, n, &[]));
            s.threads = combo
                .iter()
                .enumerate()
                .map(|(i, r)| ops_of(*r, 10 * i as u32))
                .collect();
            s.tags = &["C06", "C01", "C02", "C03", "C12", "C16", "C17"];
            s.hang_prop = "C06";
            s.post = Post::Quiesce;
            out.push(s);
        }
    }
    out
}

/// Futures role matrix: a sink task that sends two values and leaves, a stream
/// task that drains the primary stream to its end, and one more role. Every
/// scenario is closed (each stream is drained or removed, every sender leaves),
/// so any task left parked is a lost wake-up.
pub fn fut_matrix_scenarios(ns: &[u64]) -> Vec<Scn> {
    let mut out = Vec::new();
    for &n in ns {
        let cfg = qf(Flavour::B, n, (0, 0));
        let roles: Vec<(&str, Vec<Op>, Vec<Op>)> = vec![
            ("ST2", vec![opd(CloneH, 1, 4)], vec![op(StreamAll, 4)]),
            ("ST3", vec![opd(AddStream, 1, 5)], vec![op(StreamAll, 5)]),
            ("STU", vec![opd(AddStream, 1, 6), op(IntoSingle, 6)], vec![op(StreamAll, 6)]),
            ("DT", vec![opd(CloneH, 1, 4)], vec![op(TryRecv, 4), op(DropH, 4)]),
            // the direct blocking recv() on a second handle of the main stream
            // (a bug hunt found a lost wake-up exactly there)
            ("RC", vec![opd(CloneH, 1, 4)], vec![op(Recv, 4), op(DropH, 4)]),
            ("DR", vec![opd(CloneH, 1, 4)], vec![op(DropH, 4)]),
            ("DL", vec![opd(AddStream, 1, 8)], vec![op(DropH, 8)]),
            ("UL", vec![opd(AddStream, 1, 8)], vec![op(Unsub, 8)]),
            ("AS", vec![opd(CloneH, 1, 11)], vec![opd(AddStream, 11, 12), op(DropH, 11), op(StreamAll, 12)]),
            ("CL", vec![opd(CloneH, 1, 15)], vec![opd(CloneH, 15, 16), op(DropH, 16), op(DropH, 15)]),
            ("CS", vec![opd(CloneH, 0, 9)], vec![opd(CloneH, 9, 10), opv(SinkSend, 10, 21), op(DropH, 10), op(DropH, 9)]),
            ("CV", vec![opd(AddStream, 1, 17)], vec![op(IntoSingle, 17), op(StreamAll, 17)]),
            ("RT", vec![opd(AddStream, 1, 17)], vec![op(IntoSingle, 17), op(IntoMulti, 17), op(StreamAll, 17)]),
            ("TR", vec![opd(AddStream, 1, 17), op(IntoSingle, 17)], vec![op(Transform, 17), op(StreamAll, 17)]),
        ];
        for (name, pre, ops) in roles {
            for st in [St::Empty, St::Full] {
                let mut s = Scn::new(&format!("fmx-{}[{:?}]", name, st), cfg);
                s.prefix = pre.clone();
                s.prefix.extend(prep(st, n, &[]));
                s.threads = vec![
                    vec![opv(SinkSend, 0, 1), opv(SinkSend, 0, 2), op(DropH, 0)],
                    vec![op(StreamAll, 1)],
                    ops.clone(),
                ];
                s.tags = &["C14", "C01", "C02"];
                s.hang_prop = "C14";
                s.post = Post::Drain;
                s.horizon = 60_000;
                // no preemptions in the quick tier, but a task may decline to hand
                // over at up to two of its yield points
                s.extra_yield = 2;
                out.push(s);
            }
        }
    }
    out
}

/// The role matrix at one of three depths. 0 (quick tiers): pairs c = 2,
/// triples c = 1, N = 1. 1 (thorough tiers): pairs c = 3, triples c = 1, and
/// all pairs again at N = 2 with c = 2. 2 (thorough tier of C06, whose
/// quiescence oracle is the broadest net): pairs c = 4, triples c = 2, pairs
/// at N = 2 with c = 3 - 3.4e8 schedules, 85 minutes on 16 cores, too much to
/// repeat for each of the eleven properties that use the matrix.
fn push_matrix_level(t: &mut Vec<Task>, level: u8) {
    for fl in [Flavour::B, Flavour::M] {
        for s in matrix_scenarios(fl, 1, 3) {
            let nt = s.threads.len();
            let (c, sh) = match (nt, level) {
                (2, 0) => (2, 1),
                (_, 0) => (1, 1),
                (2, 1) => (3, 1),
                (_, 1) => (1, 1),
                (2, _) => (4, 2),
                (_, _) => (2, 4),
            };
            t.push(task_sh(s, c, sh));
        }
        if level >= 1 {
            for s in matrix_scenarios(fl, 2, 2) {
                t.push(task_sh(s, if level == 1 { 2 } else { 3 }, if level == 1 { 1 } else { 2 }));
            }
        }
    }
}

fn push_matrix(t: &mut Vec<Task>, thorough: bool) {
    push_matrix_level(t, thorough as u8)
}

/// Deviation bound and shard count by scenario size and tier.
fn policy(s: &Scn, thorough: bool) -> (u32, usize) {
    let nt = s.threads.len();
    let long = s.cfg.fut; // futures executions are 2-3x longer
    if !thorough && (s.prefix.len() > 30 || s.hang_prop == "C16") {
        // long set-up prefixes (reclamation scenarios) are replayed in every
        // execution: keep their quick bound low
        return (2, if nt >= 3 { 4 } else { 2 });
    }
    if !thorough {
        match (nt, long) {
            (0..=2, false) => (3, 2),
            (0..=2, true) => (2, 2),
            (3, false) => (2, 2),
            (4, false) if s.threads.iter().all(|t| t.len() == 1) => (2, 4),
            (3, true) => {
                let ops: usize = s.threads.iter().map(|t| t.len()).sum();
                if ops <= 4 {
                    (2, 2)
                } else {
                    (1, 1)
                }
            }
            _ => (1, 1),
        }
    } else {
        if nt <= 2 && (s.prefix.len() > 20 || s.hang_prop == "C16") {
            // reclamation scenarios replay a long set-up in every execution and
            // their operations are long (list surgery): c = 5 does not finish
            // in 40 minutes
            return (4, 8);
        }
        match (nt, long) {
            (0..=2, false) => (5, 4),
            (0..=2, true) => (3, 4),
            (3, false) => (3, 16),
            (3, true) => (2, 16),
            _ => (2, 16),
        }
    }
}

fn push_all(t: &mut Vec<Task>, v: Vec<Scn>, thorough: bool) {
    for s in v {
        let (c, sh) = policy(&s, thorough);
        t.push(task_sh(s, c, sh));
    }
}

pub fn tasks(prop: &str, tier: Tier) -> Vec<Task> {
    let thorough = tier == Tier::Thorough;
    let mut t: Vec<Task> = Vec::new();
    let traffic_tags: &'static [&'static str] = &["C01", "C02", "C03", "C06"];
    let ns_q: &[u64] = &[1, 2];
    let ns_t: &[u64] = &[1, 2, 4];
    let ns = if thorough { ns_t } else { ns_q };
    match prop {
        "C01" | "C02" | "C03" | "C06" => {
            if thorough {
                push_all(&mut t, pair_scenarios(ns_t, &PAIR_STATES_T, false, traffic_tags), true);
                push_all(&mut t, trio_scenarios(ns_t, false, traffic_tags), true);
                push_all(&mut t, quad_scenarios(ns_q, traffic_tags), true);
                push_all(&mut t, pair_scenarios(ns_q, &PAIR_STATES_Q, true, traffic_tags), true);
                push_all(&mut t, trio_scenarios(ns_q, true, traffic_tags), true);
            } else {
                push_all(&mut t, pair_scenarios(ns_q, &PAIR_STATES_Q, false, traffic_tags), false);
                push_all(&mut t, trio_scenarios(ns_q, false, traffic_tags), false);
                push_all(&mut t, quad_scenarios(&[2], traffic_tags), false);
            }
            if prop == "C03" {
                // requested capacities that are not powers of two (0 -> 1, 3 -> 4)
                push_all(
                    &mut t,
                    pair_scenarios(&[0, 3], &[St::Full, St::StaleCache, St::WrappedFull], false, traffic_tags),
                    thorough,
                );
            }
            // delivery, order, capacity and quiescence are judged in every
            // execution of the role matrix and of the structural scenarios too:
            // a change may break them only next to add_stream / a handle drop
            // (depth 2 - pairs c = 4, triples c = 2, N = 2 pairs c = 3 - was run
            // once for C06: 3.4e8 schedules, 85 minutes, clean; MQV_DEEP_MATRIX=1
            // selects it again)
            let deep = prop == "C06" && std::env::var("MQV_DEEP_MATRIX").is_ok();
            push_matrix_level(&mut t, if thorough { if deep { 2 } else { 1 } } else { 0 });
            push_all(&mut t, c11_scenarios(ns_q, false), thorough);
            push_all(&mut t, c12_scenarios(&[2]), thorough);
            push_all(&mut t, c10_scenarios(ns_q, false), thorough);
        }
        "C04" => {
            push_all(&mut t, c04_scenarios(ns), thorough);
            for x in t.iter_mut() {
                if x.scn.name.starts_with("c04-retry-inside-one-call") {
                    // needs five alternations: thorough only goes that deep
                    x.c = if thorough { 5 } else { 3 };
                    x.shards = if thorough { 16 } else { 2 };
                }
            }
        }
        "C05" => {
            push_all(&mut t, c05_scenarios(ns), thorough);
            push_all(&mut t, c04_scenarios(ns_q), thorough);
        }
        "C07" => {
            push_all(&mut t, c07_scenarios(ns, thorough), thorough);
            // the sender count is also changed by clones and drops that race
            // with each other: the disconnect oracle runs on the role matrix
            push_matrix(&mut t, thorough);
        }
        "C08" => {
            let wq = [
                WaitK::Busy,
                WaitK::Yield(0, 0),
                WaitK::Yield(1, 1),
                WaitK::Block(0, 0),
                WaitK::Block(1, 1),
            ];
            let wt = [
                WaitK::Busy,
                WaitK::Yield(0, 0),
                WaitK::Yield(1, 1),
                WaitK::Yield(2, 0),
                WaitK::Yield(0, 2),
                WaitK::Block(0, 0),
                WaitK::Block(1, 0),
                WaitK::Block(0, 1),
                WaitK::Block(1, 1),
            ];
            if thorough {
                // (N = 4 and c = 5 over nine wait configurations did not finish in
                // twenty minutes)
                push_all(&mut t, c08_scenarios(ns_q, &wt), true);
                for x in t.iter_mut() {
                    x.c = x.c.min(4);
                }
                for s in c08_scenarios(ns_q, &[WaitK::Default, WaitK::Yield(50, 50)]) {
                    t.push(task_sh(s, 1, 4));
                }
            } else {
                push_all(&mut t, c08_scenarios(ns_q, &wq), false);
                // 130 scenarios x 5 wait strategies: keep the quick tier quick
                for x in t.iter_mut() {
                    x.c = x.c.min(3);
                    if x.scn.name.starts_with("c08-iter") {
                        // long executions (two retried sends, drain to the end)
                        x.c = 2;
                    }
                }
            }
        }
        "C10" => {
            push_matrix(&mut t, thorough);
            push_all(&mut t, c10_scenarios(ns, false), thorough);
            if thorough {
                push_all(&mut t, c10_scenarios(ns_q, true), true);
            }
        }
        "C11" => {
            push_matrix(&mut t, thorough);
            push_all(&mut t, c11_scenarios(ns, false), thorough);
            push_all(&mut t, c11_scenarios(if thorough { ns_q } else { &[1] }, true), thorough);
        }
        "C12" => {
            push_all(&mut t, c12_scenarios(ns), thorough);
            push_matrix(&mut t, thorough);
        }
        "C13" => {
            push_all(&mut t, c13_scenarios(ns), thorough);
            push_matrix(&mut t, thorough);
        }
        "C14" => {
            for s in fut_matrix_scenarios(if thorough { ns_q } else { &[1] }) {
                // blocking points (parks) are free choices, so even bound 0 covers
                // every order in which the tasks run until they park or finish
                let mut tk = task_sh(s, if thorough { 1 } else { 0 }, if thorough { 8 } else { 1 });
                if thorough {
                    // one preemption on top of the yield allowance: the [Full] / N = 2
                    // scenarios have millions of such schedules; each shard stops
                    // after 60 000 (reported as a cap, the tier is then not called
                    // exhaustive)
                    tk.cap = 60_000;
                }
                t.push(tk);
            }
            {
                // the move-out futures flavour (default spin counts only)
                let cfg = qf(Flavour::M, 1, (0, 0));
                let mut s = Scn::new("c14-mpmcfut-sink2-stream-all", cfg);
                s.threads = vec![
                    vec![opv(SinkSend, S0, 1), opv(SinkSend, S0, 2), op(DropH, S0)],
                    vec![op(StreamAll, R0)],
                ];
                s.tags = &["C14", "C01", "C02"];
                s.hang_prop = "C14";
                s.post = Post::Drain;
                s.horizon = 200_000;
                t.push(task_sh(s, 1, 4));
                let mut s = Scn::new("c14-mpmcfut-sink-parked-vs-direct-tryrecv", cfg);
                s.prefix = prep(St::Full, 1, &[R0]);
                s.threads = vec![vec![opv(SinkSend, S0, 1)], vec![op(TryRecv, R0)]];
                s.tags = &["C14"];
                s.hang_prop = "C14";
                s.post = Post::Drain;
                s.horizon = 200_000;
                t.push(task_sh(s, 1, 4));
            }
            if thorough {
                push_all(&mut t, c14_scenarios(ns_q, &[(0, 0), (1, 1)]), true);
                for s in c14_scenarios(&[1], &[(50, 50)]) {
                    t.push(task_sh(s, 1, 4));
                }
            } else {
                push_all(&mut t, c14_scenarios(ns_q, &[(0, 0)]), false);
            }
        }
        "C15" => {
            push_all(&mut t, pair_scenarios(ns_q, &PAIR_STATES_Q, true, traffic_tags), thorough);
            push_all(&mut t, trio_scenarios(ns_q, true, traffic_tags), thorough);
        }
        "C16" => {
            push_all(&mut t, c16_scenarios(if thorough { ns_q } else { &[1] }), thorough);
            for x in t.iter_mut() {
                if x.scn.name.starts_with("c16-leaver-vs-full-cycle") {
                    // a whole reclamation cycle runs inside one operation here:
                    // c = 4 (4.2e7 schedules and counting) hit the 40-minute
                    // deadline of the thorough tier
                    x.c = x.c.min(3);
                }
            }
            push_matrix(&mut t, thorough);
        }
        "C17" => {
            // memory after teardown of concurrent executions with handle churn;
            // where retirements race at the threshold the manager must still
            // reclaim afterwards (growth probe)
            push_all(&mut t, c16_scenarios(&[1]), thorough);
            for x in t.iter_mut() {
                if x.scn.name.starts_with("c16-two-retirers-at-threshold") || x.scn.name.starts_with("c16-leaver-vs-full-cycle") {
                    x.scn.growth_probe = true;
                    // the probe makes every execution ten times as long
                    x.c = x.c.min(2);
                }
            }
            push_matrix(&mut t, thorough);
            push_all(&mut t, c12_scenarios(if thorough { ns_q } else { &[1] }), thorough);
            if thorough {
                push_all(&mut t, c05_scenarios(&[1]), thorough);
            }
        }
        "C18" => {
            push_all(&mut t, c18_scenarios(ns), thorough);
            // ordinary schedules as well: a try operation preempted in the middle,
            // others moving on, is still bounded in its own steps
            push_all(&mut t, trio_scenarios(ns_q, false, traffic_tags), thorough);
            push_all(&mut t, c04_scenarios(ns_q), thorough);
        }
        _ => {}
    }
    t
}

/// A slot may be used by one thread only (the interpreter holds the slot's
/// lock across the call), except for a hand-off: created as `dst` by one
/// thread and used by another after an Await.
pub fn validate(scn: &Scn) -> Result<(), String> {
    for slot in 0..NSLOTS as u8 {
        let mut users: Vec<usize> = Vec::new();
        let mut creators: Vec<usize> = Vec::new();
        for (ti, ops) in scn.threads.iter().enumerate() {
            for o in ops {
                if matches!(o.k, Await | FlagSet) {
                    continue;
                }
                if o.h == slot && !users.contains(&ti) {
                    users.push(ti);
                }
                if matches!(o.k, CloneH | AddStream | AddStreamWith) && o.dst == slot && !creators.contains(&ti) {
                    creators.push(ti);
                }
            }
        }
        if users.len() > 1 {
            return Err(format!("{}: slot {} is used by threads {:?}", scn.name, slot, users));
        }
        if creators.len() > 1 {
            return Err(format!("{}: slot {} is created by threads {:?}", scn.name, slot, creators));
        }
        if let (Some(u), Some(c)) = (users.first(), creators.first()) {
            if u != c {
                let awaits = scn.threads[*u].iter().any(|o| o.k == Await);
                if !awaits {
                    return Err(format!("{}: slot {} handed from thread {} to {} without Await", scn.name, slot, c, u));
                }
            }
        }
    }
    Ok(())
}

pub const ALL_E1_PROPS: [&str; 15] = [
    "C01", "C02", "C03", "C04", "C05", "C06", "C07", "C08", "C10", "C11", "C12", "C13", "C14",
    "C16", "C18",
];

#[allow(dead_code)]
pub fn unused() {
    let _ = (S2, R3, R4);
}
