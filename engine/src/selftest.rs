//! Self-tests of the machinery on toys with known answers.

use crate::explore::{children, Item, UNBOUNDED};
use crate::rt::{self, Body, ExecOpts, Status};
use multiqueue2::verif_hooks::{pl, AtomicUsize};
use std::sync::atomic::Ordering::SeqCst;
use std::sync::Arc;

fn explore_raw(
    make: &dyn Fn() -> (Vec<Body>, Box<dyn Fn() -> bool>),
    c: u32,
) -> (u64, u64, u64, bool) {
    let mut stack = vec![Item {
        prefix: vec![],
        expect_n: vec![],
        cost: 0,
        ycost: 0,
    }];
    let (mut execs, mut bad, mut hangs) = (0u64, 0u64, 0u64);
    let mut det_ok = true;
    while let Some(it) = stack.pop() {
        let (bodies, ok) = make();
        rt::exec_begin();
        let o = ExecOpts {
            prefix: it.prefix.clone(),
            expect_n: it.expect_n.clone(),
            horizon: 10_000,
            trace: false,
            hash: true,
            solo: None,
            spurious: false,
        };
        let rec = rt::run_threads(bodies, &o);
        rt::exec_end();
        execs += 1;
        if execs <= 3 {
            // same schedule again: identical trace required
            let (b2, _) = make();
            rt::exec_begin();
            let full: Vec<u8> = rec.choices.iter().map(|c| c.chosen).collect();
            let ns: Vec<u8> = rec.choices.iter().map(|c| c.n).collect();
            let o2 = ExecOpts {
                prefix: full,
                expect_n: ns,
                horizon: 10_000,
                trace: false,
                hash: true,
                solo: None,
                spurious: false,
            };
            let rec2 = rt::run_threads(b2, &o2);
            rt::exec_end();
            if rec2.trace_hash != rec.trace_hash || rec2.status != rec.status {
                det_ok = false;
            }
        }
        match rec.status {
            Status::Complete => {
                if !ok() {
                    bad += 1;
                }
            }
            Status::Hang(_) => hangs += 1,
            _ => bad += 1000,
        }
        children(it.prefix.len(), it.cost, &rec.choices, c, &mut stack);
    }
    (execs, bad, hangs, det_ok)
}

pub fn run() -> bool {
    let mut all = true;
    // 1. lost update: two threads load then store +1
    let make = || -> (Vec<Body>, Box<dyn Fn() -> bool>) {
        let a = Arc::new(AtomicUsize::new(0));
        let mk = |a: Arc<AtomicUsize>| -> Body {
            Box::new(move || {
                let v = a.load(SeqCst);
                a.store(v + 1, SeqCst);
            })
        };
        let a2 = a.clone();
        (
            vec![mk(a.clone()), mk(a.clone())],
            Box::new(move || a2.load(SeqCst) == 2),
        )
    };
    let (e0, b0, _, d0) = explore_raw(&make, 0);
    let (e1, b1, _, d1) = explore_raw(&make, 1);
    let (eu, bu, _, du) = explore_raw(&make, UNBOUNDED);
    println!(
        "selftest lost-update: c=0 execs={} bad={} | c=1 execs={} bad={} | all execs={} bad={}",
        e0, b0, e1, b1, eu, bu
    );
    // two threads x two ops: 6 interleavings of the operations (more schedules:
    // a thread parked before its first operation differs from one not started)
    let ok1 = b0 == 0 && b1 > 0 && eu >= 6 && bu > b1 && d0 && d1 && du;
    println!("selftest lost-update: {}", if ok1 { "ok" } else { "FAILED" });
    all &= ok1;

    // 2. lost wake-up: the waiter checks the flag under the lock, the setter
    // sets the flag and notifies WITHOUT taking the lock
    let make = || -> (Vec<Body>, Box<dyn Fn() -> bool>) {
        struct Sh {
            flag: AtomicUsize,
            m: pl::Mutex<bool>,
            cv: pl::Condvar,
        }
        let sh = Arc::new(Sh {
            flag: AtomicUsize::new(0),
            m: pl::Mutex::new(false),
            cv: pl::Condvar::new(),
        });
        let s1 = sh.clone();
        let s2 = sh.clone();
        (
            vec![
                Box::new(move || {
                    let mut g = s1.m.lock();
                    while s1.flag.load(SeqCst) == 0 {
                        s1.cv.wait(&mut g);
                    }
                }),
                Box::new(move || {
                    s2.flag.store(1, SeqCst);
                    s2.cv.notify_all();
                }),
            ],
            Box::new(|| true),
        )
    };
    let (e, b, h, d) = explore_raw(&make, 2);
    println!("selftest lost-wakeup: c<=2 execs={} bad={} hangs={}", e, b, h);
    let ok2 = b == 0 && h > 0 && d;
    println!("selftest lost-wakeup: {}", if ok2 { "ok" } else { "FAILED" });
    all &= ok2;

    // 3. the correct protocol (notify under the lock) never hangs
    let make = || -> (Vec<Body>, Box<dyn Fn() -> bool>) {
        struct Sh {
            flag: AtomicUsize,
            m: pl::Mutex<bool>,
            cv: pl::Condvar,
        }
        let sh = Arc::new(Sh {
            flag: AtomicUsize::new(0),
            m: pl::Mutex::new(false),
            cv: pl::Condvar::new(),
        });
        let s1 = sh.clone();
        let s2 = sh.clone();
        (
            vec![
                Box::new(move || {
                    let mut g = s1.m.lock();
                    while s1.flag.load(SeqCst) == 0 {
                        s1.cv.wait(&mut g);
                    }
                }),
                Box::new(move || {
                    s2.flag.store(1, SeqCst);
                    let _g = s2.m.lock();
                    s2.cv.notify_all();
                }),
            ],
            Box::new(|| true),
        )
    };
    let (e, b, h, d) = explore_raw(&make, UNBOUNDED);
    println!("selftest correct-wakeup: all execs={} bad={} hangs={}", e, b, h);
    let ok3 = b == 0 && h == 0 && d && e > 3;
    println!("selftest correct-wakeup: {}", if ok3 { "ok" } else { "FAILED" });
    all &= ok3;
    all
}
