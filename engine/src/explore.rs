//! Deviation-bounded depth-first exploration of all schedules of a scenario.

use crate::oracles::{self, Finding};
use crate::rt::{ChoicePoint, ExecOpts, Status};
use crate::scenario::{run_one, Outcome, Scn};
use std::collections::{BTreeMap, BTreeSet, VecDeque};
use std::time::Instant;

pub const UNBOUNDED: u32 = u32::MAX;

#[derive(Clone, Debug)]
pub struct FindingRec {
    pub finding: Finding,
    pub count: u64,
    pub prefix: Vec<u8>,
    pub expect_n: Vec<u8>,
}

#[derive(Clone, Debug, Default)]
pub struct Stats {
    pub scenario: String,
    pub threads: usize,
    pub bound: u32,
    pub execs: u64,
    pub complete: u64,
    pub hangs: u64,
    pub horizons: u64,
    pub faults: u64,
    pub max_points: usize,
    pub max_steps: u64,
    pub sum_steps: u64,
    pub outcomes: BTreeSet<u64>,
    pub nontrivial_outcomes: BTreeSet<u64>,
    pub findings: BTreeMap<String, FindingRec>,
    /// exploration stopped by the execution cap / deadline before finishing
    pub capped: bool,
    pub determinism_checked: u32,
    pub machinery_errors: Vec<String>,
    pub sample: Vec<String>,
    pub wall_ms: u64,
}

pub struct Item {
    pub prefix: Vec<u8>,
    pub expect_n: Vec<u8>,
    pub cost: u32,
    pub ycost: u32,
}

pub fn children(item_len: usize, cost: u32, choices: &[ChoicePoint], c: u32, out: &mut Vec<Item>) {
    children2(item_len, cost, 0, choices, c, 0, out)
}

/// `cy` = additional deviations that may only be spent at yield points.
pub fn children2(
    item_len: usize,
    cost: u32,
    ycost: u32,
    choices: &[ChoicePoint],
    c: u32,
    cy: u32,
    out: &mut Vec<Item>,
) {
    for i in (item_len..choices.len()).rev() {
        let cp = choices[i];
        for alt in (1..cp.n).rev() {
            let add = (cp.cost_mask >> alt) & 1;
            let (mut nc, mut nyc) = (cost, ycost);
            if add == 1 {
                if cp.at_yield && nyc < cy {
                    nyc += 1;
                } else {
                    nc += 1;
                }
            }
            if c != UNBOUNDED && nc > c {
                continue;
            }
            let mut p: Vec<u8> = choices[..i].iter().map(|x| x.chosen).collect();
            p.push(alt);
            let mut ns: Vec<u8> = choices[..=i].iter().map(|x| x.n).collect();
            ns.truncate(i + 1);
            out.push(Item {
                prefix: p,
                expect_n: ns,
                cost: nc,
                ycost: nyc,
            });
        }
    }
}

pub fn opts_for(scn: &Scn, prefix: &[u8], expect_n: &[u8], trace: bool, hash: bool) -> ExecOpts {
    ExecOpts {
        prefix: prefix.to_vec(),
        expect_n: expect_n.to_vec(),
        horizon: scn.horizon,
        trace,
        hash,
        solo: scn.solo,
        spurious: scn.spurious,
    }
}

fn account(st: &mut Stats, scn: &Scn, out: &Outcome, item: &Item) {
    st.execs += 1;
    match &out.rec.status {
        Status::Complete => st.complete += 1,
        Status::Hang(_) => st.hangs += 1,
        Status::Horizon => st.horizons += 1,
        Status::Fault => st.faults += 1,
        Status::Diverged(m) => st.machinery_errors.push(format!("replay diverged: {}", m)),
    }
    st.max_points = st.max_points.max(out.rec.choices.len());
    st.max_steps = st.max_steps.max(out.rec.steps);
    st.sum_steps += out.rec.steps;
    let obs = oracles::observation(out);
    st.outcomes.insert(obs);
    if out.rec.switches > scn.threads.len() as u32 {
        st.nontrivial_outcomes.insert(obs);
    }
    let full_prefix: Vec<u8> = out.rec.choices.iter().map(|c| c.chosen).collect();
    let full_ns: Vec<u8> = out.rec.choices.iter().map(|c| c.n).collect();
    let _ = item;
    if out.rec.runaway {
        st.machinery_errors.push(
            "cleanup of an abandoned execution did not terminate (a loop in a destructor run while unwinding); shard ended early, findings so far are reported"
                .to_string(),
        );
        st.capped = true;
    }
    for f in oracles::judge(scn, out) {
        if f.prop == "MACHINERY" {
            st.machinery_errors.push(format!("{}: {}", f.sig, f.detail));
            continue;
        }
        let e = st.findings.entry(f.sig.clone()).or_insert_with(|| FindingRec {
            finding: f.clone(),
            count: 0,
            prefix: full_prefix.clone(),
            expect_n: full_ns.clone(),
        });
        e.count += 1;
    }
    if st.sample.len() < 2 && out.rec.switches > scn.threads.len() as u32 {
        st.sample.push(format!(
            "choices={:?} status={:?} history={:?}",
            full_prefix,
            match &out.rec.status {
                Status::Hang(_) => "Hang".to_string(),
                s => format!("{:?}", s),
            },
            oracles::dump_history(out)
        ));
    }
}

/// Explore every schedule of `scn` with at most `c` deviations. `shard` =
/// (index, count): the DFS tree is cut at a frontier of prefixes which are
/// dealt round-robin to the shards.
fn partial_text(st: &Stats) -> String {
    let clean = |s: &str| s.replace(['\t', '\n', '\r'], " ");
    let csv = |v: &[u8]| v.iter().map(|x| x.to_string()).collect::<Vec<_>>().join(",");
    let mut t = String::new();
    t.push_str(&format!("STAT\tscenario\t{}\n", st.scenario));
    t.push_str(&format!("STAT\tthreads\t{}\n", st.threads));
    t.push_str(&format!("STAT\tbound\t{}\n", if st.bound == UNBOUNDED { -1 } else { st.bound as i64 }));
    t.push_str(&format!("STAT\texecs\t{}\n", st.execs));
    t.push_str(&format!("STAT\thorizons\t{}\n", st.horizons));
    t.push_str(&format!("STAT\thangs\t{}\n", st.hangs));
    for (sig, fr) in &st.findings {
        t.push_str(&format!(
            "FINDING\t{}\t{}\t{}\t{}\t{}\t{}\n",
            fr.finding.prop,
            clean(sig),
            fr.count,
            if fr.prefix.is_empty() { "-".to_string() } else { csv(&fr.prefix) },
            if fr.expect_n.is_empty() { "-".to_string() } else { csv(&fr.expect_n) },
            clean(&fr.finding.detail)
        ));
    }
    t
}

pub fn explore(scn: &Scn, c: u32, shard: (usize, usize), cap: u64, deadline: Instant) -> Stats {
    let cy = scn.extra_yield;
    let t0 = Instant::now();
    let mut st = Stats {
        scenario: scn.name.clone(),
        threads: scn.threads.len(),
        bound: c,
        ..Default::default()
    };
    let (si, sk) = shard;
    // determinism: the default schedule twice, identical traces required
    {
        let o = opts_for(scn, &[], &[], false, true);
        let a = run_one(scn, &o);
        let b = run_one(scn, &o);
        st.determinism_checked += 1;
        if a.rec.trace_hash != b.rec.trace_hash
            || a.rec.choices != b.rec.choices
            || oracles::observation(&a) != oracles::observation(&b)
        {
            st.machinery_errors
                .push("nondeterminism: default schedule gave two different traces".to_string());
            return st;
        }
    }
    let mut frontier: VecDeque<Item> = VecDeque::new();
    frontier.push_back(Item {
        prefix: vec![],
        expect_n: vec![],
        cost: 0,
        ycost: 0,
    });
    let want = if sk > 1 { sk * 8 } else { 0 };
    // phase 1: breadth-first until the frontier is wide enough (every shard
    // does the same work here; only shard 0 accounts for it)
    while sk > 1 && frontier.len() < want {
        let it = match frontier.pop_front() {
            Some(i) => i,
            None => break,
        };
        let out = run_one(scn, &opts_for(scn, &it.prefix, &it.expect_n, false, false));
        if si == 0 || out.rec.runaway {
            account(&mut st, scn, &out, &it);
        }
        if out.rec.runaway {
            st.wall_ms = t0.elapsed().as_millis() as u64;
            return st;
        }
        let mut ch = Vec::new();
        children2(it.prefix.len(), it.cost, it.ycost, &out.rec.choices, c, cy, &mut ch);
        ch.reverse();
        for x in ch {
            frontier.push_back(x);
        }
    }
    // phase 2: depth-first below my share of the frontier
    let mut stack: Vec<Item> = Vec::new();
    for (j, it) in frontier.into_iter().enumerate() {
        if j % sk == si {
            stack.push(it);
        }
    }
    stack.reverse();
    let mut since_check = 0u32;
    while let Some(it) = stack.pop() {
        if st.execs >= cap {
            st.capped = true;
            break;
        }
        since_check += 1;
        if since_check >= 64 {
            since_check = 0;
            if Instant::now() > deadline {
                st.capped = true;
                break;
            }
        }
        let nf = st.findings.len();
        let out = run_one(scn, &opts_for(scn, &it.prefix, &it.expect_n, false, false));
        account(&mut st, scn, &out, &it);
        if st.findings.len() != nf || st.execs % 1024 == 0 {
            crate::rt::set_partial(partial_text(&st));
        }
        if !st.machinery_errors.is_empty() {
            break;
        }
        children2(it.prefix.len(), it.cost, it.ycost, &out.rec.choices, c, cy, &mut stack);
    }
    st.wall_ms = t0.elapsed().as_millis() as u64;
    st
}
