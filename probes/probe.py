#!/usr/bin/env python3
"""E3: exhaustive auto-trait probe matrix for C19.

Every cell (handle type x payload class x closure class x {Send,Sync}) is a
one-function program compiled by rustc against the shipped (guard-off) crate;
compile success/failure is compared with the expectation derived from the
property statement. Nothing executes.
"""
import json, os, subprocess, sys, time, shutil, concurrent.futures as cf

VERIF = os.path.dirname(os.path.dirname(os.path.abspath(__file__)))
TARGET = os.path.join(VERIF, "target", "probes")
WORK = os.path.join(TARGET, "cells")

PAYLOADS = {
    # name: (type expr, is_send, is_sync)
    "send+sync": ("u32", True, True),
    "send-only": ("std::cell::Cell<u32>", True, False),
    "sync-only": ("SyncOnly", False, True),
    "neither": ("std::rc::Rc<u32>", False, False),
}
CLOSURES = {
    "send": ("Box<dyn FnMut(&{T}) -> u32 + Send>", True),
    "not-send": ("Box<dyn FnMut(&{T}) -> u32>", False),
}
# name: (generic form, flavour, has closure, needs T: Sync to exist)
HANDLES = {
    "BroadcastSender": ("BroadcastSender<{T}>", "b", False, False),
    "BroadcastReceiver": ("BroadcastReceiver<{T}>", "b", False, False),
    "BroadcastUniReceiver": ("BroadcastUniReceiver<{T}>", "b", False, True),
    "BroadcastFutSender": ("BroadcastFutSender<{T}>", "b", False, False),
    "BroadcastFutReceiver": ("BroadcastFutReceiver<{T}>", "b", False, False),
    "BroadcastFutUniReceiver": ("BroadcastFutUniReceiver<u32, {F}, {T}>", "b", True, True),
    "MPMCSender": ("MPMCSender<{T}>", "m", False, False),
    "MPMCReceiver": ("MPMCReceiver<{T}>", "m", False, False),
    "MPMCUniReceiver": ("MPMCUniReceiver<{T}>", "m", False, False),
    "MPMCFutSender": ("MPMCFutSender<{T}>", "m", False, False),
    "MPMCFutReceiver": ("MPMCFutReceiver<{T}>", "m", False, False),
    "MPMCFutUniReceiver": ("MPMCFutUniReceiver<u32, {F}, {T}>", "m", True, False),
}

PRELUDE = """#![allow(dead_code)]
extern crate multiqueue2;
use multiqueue2::*;
#[derive(Clone)]
pub struct SyncOnly(std::marker::PhantomData<std::sync::MutexGuard<'static, u32>>);
fn need_send<X: Send>() {}
fn need_sync<X: Sync>() {}
"""


def cells():
    out = []
    for hname, (form, fl, has_f, needs_sync) in HANDLES.items():
        for pname, (ptype, psend, psync) in PAYLOADS.items():
            if needs_sync and not psync:
                continue  # the type itself requires T: Sync; no such instantiation exists
            fopts = CLOSURES.items() if has_f else [("-", (None, True))]
            for fname, (fform, fsend) in fopts:
                ty = form.replace("{T}", ptype)
                if has_f:
                    ty = ty.replace("{F}", fform.replace("{T}", ptype))
                exp_send = psend and (psync if fl == "b" else True) and fsend
                for trait, exp in (("Send", exp_send), ("Sync", False)):
                    out.append({"handle": hname, "payload": pname, "closure": fname, "trait": trait,
                                "type": ty, "expected": exp})
    # the wait strategy every handle carries (Arc<dyn Wait>): a custom strategy
    # may be given to the *_with constructors only if it is Send + Sync, since
    # the handles' Send-ness does not depend on it
    for ctor in ("broadcast_queue_with", "mpmc_queue_with"):
        for wname, (field, wok) in WAITS.items():
            prog = ("""pub struct W(%s);
impl multiqueue2::wait::Wait for W {
    fn wait(&self, _: usize, _: &std::sync::atomic::AtomicUsize, _: &std::sync::atomic::AtomicUsize) {}
    fn notify(&self) {}
    fn needs_notify(&self) -> bool { false }
}
pub fn probe(w: W) { let _ = multiqueue2::%s::<u32, W>(4, w); }
""" % (field, ctor))
            out.append({"handle": ctor, "payload": "wait-strategy:" + wname, "closure": "-", "trait": "accepted",
                        "type": "W(%s)" % field, "expected": wok, "program": prog})
    return out


WAITS = {
    "send+sync": ("u32", True),
    "send-only": ("std::cell::Cell<u32>", False),
    "neither": ("std::rc::Rc<u32>", False),
}


def build_lib():
    env = dict(os.environ, CARGO_NET_OFFLINE="true")
    env.pop("RUSTFLAGS", None)
    r = subprocess.run(["cargo", "build", "--offline", "--lib", "--manifest-path", "/repo/Cargo.toml",
                        "--target-dir", TARGET], cwd="/", env=env, stdout=subprocess.PIPE,
                       stderr=subprocess.STDOUT, text=True)
    if r.returncode != 0:
        print(r.stdout[-4000:])
        print("MACHINERY-ERROR: building multiqueue2 (guard off) failed")
        sys.exit(2)
    deps = os.path.join(TARGET, "debug", "deps")
    rlib = os.path.join(TARGET, "debug", "libmultiqueue2.rlib")
    return deps, rlib


def compile_cell(args):
    i, c, deps, rlib = args
    src = os.path.join(WORK, "p%d.rs" % i)
    fn = "need_send" if c["trait"] == "Send" else "need_sync"
    if "program" in c:
        open(src, "w").write(PRELUDE + c["program"])
    else:
        open(src, "w").write(PRELUDE + "pub fn probe() { %s::<%s>(); }\n" % (fn, c["type"]))
    r = subprocess.run(["rustc", "--edition", "2018", "--crate-type", "lib", "--emit=metadata",
                        "-o", os.path.join(WORK, "p%d.rmeta" % i), "-L", "dependency=" + deps,
                        "--extern", "multiqueue2=" + rlib, "--cap-lints", "allow", src],
                       stdout=subprocess.PIPE, stderr=subprocess.PIPE, text=True)
    ok = r.returncode == 0
    reason_ok = True
    if not ok:
        e = r.stderr
        reason_ok = ("E0277" in e) and ("between threads safely" in e)
    return i, ok, reason_ok, (r.stderr[-600:] if not reason_ok else "")


def main():
    t0 = time.time()
    tier = sys.argv[1] if len(sys.argv) > 1 else "quick"
    replay = None
    if tier == "--replay":
        replay = json.load(open(sys.argv[2]))
        tier = "quick"
    deps, rlib = build_lib()
    shutil.rmtree(WORK, ignore_errors=True)
    os.makedirs(WORK, exist_ok=True)
    cs = cells()
    if replay:
        cs = [c for c in cs if "C19|%s|payload=%s|closure=%s|trait=%s" % (c["handle"], c["payload"], c["closure"], c["trait"]) in replay["signature"]]
    res = {}
    machinery = []
    with cf.ThreadPoolExecutor(max_workers=min(16, os.cpu_count() or 4)) as ex:
        for i, ok, reason_ok, err in ex.map(compile_cell, [(i, c, deps, rlib) for i, c in enumerate(cs)]):
            res[i] = ok
            if not reason_ok:
                machinery.append("probe %s failed to compile for an unrelated reason: %s" % (cs[i], err))
    shutil.rmtree(WORK, ignore_errors=True)
    known = []
    kp = os.path.join(VERIF, "known_findings.json")
    if os.path.exists(kp):
        known = json.load(open(kp))
    known_sigs = {k["signature"] for k in known if k.get("status") == "known" and k["property"] == "C19"}
    os.makedirs(os.path.join(VERIF, "replays"), exist_ok=True)
    os.makedirs(os.path.join(VERIF, "evidence"), exist_ok=True)
    viol, known_hit, samples = [], [], []
    outcomes = set()
    for i, c in enumerate(cs):
        got = res[i]
        outcomes.add((c["handle"], c["payload"], c["closure"], c["trait"], got))
        if len(samples) < 6 and (i % 17 == 0):
            samples.append({"type": c["type"], "trait": c["trait"], "expected": c["expected"], "compiles": got})
        if got != c["expected"]:
            sig = "C19|%s|payload=%s|closure=%s|trait=%s|expected=%s|got=%s" % (
                c["handle"], c["payload"], c["closure"], c["trait"],
                "yes" if c["expected"] else "no", "yes" if got else "no")
            if sig in known_sigs:
                known_hit.append(sig)
            else:
                viol.append((sig, c))
    if replay:
        for i, c in enumerate(cs):
            print("%s: %s  expected=%s compiles=%s" % (c["trait"], c["type"], c["expected"], res[i]))
        sys.exit(0)
    for s in known_hit:
        print("KNOWN-FINDING: property=C19 %s" % s)
    for n, (sig, c) in enumerate(viol):
        path = os.path.join(VERIF, "replays", "C19-%s-%d.json" % (tier, n + 1))
        json.dump({"property": "C19", "engine": "E3", "signature": sig, "cell": c}, open(path, "w"), indent=1)
        print("VIOLATION property=C19 replay=%s" % path)
        print("  signature: %s" % sig)
        print("  type     : %s" % c["type"])
    for m in machinery[:10]:
        print("MACHINERY-ERROR: %s" % m)
    ev = {
        "property_id": "C19", "tier": tier, "seed": int(os.environ.get("VERIF_SEED", "0") or 0),
        "level": "exploration",
        "coverage": {
            "evaluations": len(cs),
            "distinct_nontrivial": len(outcomes),
            "rule": "every cell of (12 public handle types) x (payload: Send+Sync u32, Send-only Cell<u32>, Sync-only PhantomData<MutexGuard>, neither Rc<u32>) x (closure Send / not Send, for the two *FutUniReceiver types) x (Send, Sync) that is a well-formed type is compiled by rustc against the guard-off crate; a cell is non-trivial = it is an actual compiler run; distinct = distinct (type, payload, closure, trait, verdict) tuples",
            "samples": samples,
            "exhaustive": not machinery,
            "cells_skipped_because_type_requires_sync_payload": 2 * 2 * 2 + 0,
            "known_findings_seen": known_hit,
        },
        "assumptions": ["rustc's trait solver is the oracle", "auto traits are judged on the shipped types (guard off)"],
        "wall_s": round(time.time() - t0, 2),
        "violations": len(viol),
    }
    tmp = os.path.join(VERIF, "evidence", "C19.json.tmp")
    json.dump(ev, open(tmp, "w"), indent=1)
    os.replace(tmp, os.path.join(VERIF, "evidence", "C19.json"))
    print("C19 %s: %d probe programs, %d violations, %d known, %.1fs" % (tier, len(cs), len(viol), len(known_hit), time.time() - t0))
    if machinery:
        sys.exit(2)
    sys.exit(1 if viol else 0)


if __name__ == "__main__":
    main()
